#!/bin/bash
# runall.sh [quick|thorough] -- runs every registered check in sequence and prints one summary line per check.
cd "$(dirname "$0")"
TIER="${1:-quick}"
rc_all=0
for id in C01 C02 C03 C04 C05 C06 C07 C08 C09 C10 C11 C12 C13 C14 C15 C16 C17 C18 C19 C20; do
  out=$(./run.sh $id $TIER 2>&1); rc=$?
  echo "$(echo "$out" | tail -1)  [exit $rc]"
  echo "$out" | grep -E "^(VIOLATION|KNOWN-FINDING|HARNESS-ERROR|BUILD-ERROR)" | cut -c1-200
  [ $rc -ne 0 ] && rc_all=1
done
exit $rc_all
