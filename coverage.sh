#!/bin/bash
# coverage.sh [IDs...] -- developer command (not a registered check): builds the checker with statement coverage of
# package apd (go build -cover -coverpkg), runs the quick tier of the given checks (default: all except C18) against
# /repo with evidence redirected to a scratch directory, and prints the apd functions that were not fully covered.
set -u
cd "$(dirname "$0")"
export GOFLAGS=-mod=mod GOPROXY=off GOSUMDB=off GOTOOLCHAIN=local
IDS="${*:-C01 C02 C03 C05 C07 C08 C09 C10 C11 C12 C13 C14 C15 C16 C17 C19 C20}"   # C04, C06, C18 need the overlay build, which go tool cover cannot read
COV=$(mktemp -d /tmp/verif-cov.XXXX)
OUT=$(mktemp -d /tmp/verif-cov-out.XXXX); cp known_findings.json $OUT/
go build -cover -coverpkg=github.com/cockroachdb/apd/v3,verif/... -o bin/vcheck-cover ./cmd/vcheck || exit 2
for id in $IDS; do
  GOCOVERDIR=$COV VERIF_DIR=$OUT VERIF_SRC=/repo ./bin/vcheck-cover $id --tier quick 2>&1 | tail -1
done
go tool covdata percent -i=$COV 2>/dev/null | tail -3
go tool covdata textfmt -i=$COV -o $COV/cover.txt 2>/dev/null
grep -v '^verif/' $COV/cover.txt > $COV/apd.txt; (cd /repo && go tool cover -func=$COV/apd.txt 2>/dev/null) | awk '$NF != "100.0%"' | sort -k3 -n | head -80 > coverage-report.txt
echo "functions of package apd below 100% statement coverage: $(grep -c . coverage-report.txt) (see coverage-report.txt)"
rm -rf $COV $OUT
