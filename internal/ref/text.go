package ref

import (
	"math/big"
	"strings"
)

// FormatSci is the GDA to-scientific-string conversion, written from the
// specification text, with the one documented apd exception: a zero with an
// exponent in [-2000,-1] is written in plain notation. expChar is 'E' or 'e'.
func FormatSci(v Val, expChar byte) string {
	sign := ""
	if v.Neg {
		sign = "-"
	}
	switch v.Form {
	case Inf:
		return sign + "Infinity"
	case NaN:
		return sign + "NaN"
	case SNaN:
		return sign + "sNaN"
	}
	digs := v.Coef.String()
	e := v.Exp
	n := len(digs)
	adj := e + n - 1
	if v.Coef.Sign() == 0 && e < 0 && e >= -2000 {
		return sign + "0." + strings.Repeat("0", -e)
	}
	if e <= 0 && adj >= -6 {
		return sign + plain(digs, e)
	}
	return sign + sci(digs, e, expChar)
}

func plain(digs string, e int) string {
	n := len(digs)
	if e == 0 {
		return digs
	}
	if e > 0 {
		return digs + strings.Repeat("0", e)
	}
	if n > -e {
		return digs[:n+e] + "." + digs[n+e:]
	}
	return "0." + strings.Repeat("0", -e-n) + digs
}

func sci(digs string, e int, expChar byte) string {
	adj := e + len(digs) - 1
	s := digs[:1]
	if len(digs) > 1 {
		s += "." + digs[1:]
	}
	s += string(expChar)
	if adj < 0 {
		s += "-"
		adj = -adj
	} else {
		s += "+"
	}
	return s + itoa(adj)
}

func itoa(n int) string { return big.NewInt(int64(n)).String() }

// FormatE is Text('E'/'e'): always scientific.
func FormatE(v Val, expChar byte) string {
	if v.Form != Finite {
		return FormatSci(v, expChar)
	}
	sign := ""
	if v.Neg {
		sign = "-"
	}
	return sign + sci(v.Coef.String(), v.Exp, expChar)
}

// FormatF is Text('f'): always plain.
func FormatF(v Val) string {
	if v.Form != Finite {
		return FormatSci(v, 'E')
	}
	sign := ""
	if v.Neg {
		sign = "-"
	}
	return sign + plain(v.Coef.String(), v.Exp)
}

// Parse is the recogniser of the GDA numeric-string grammar (ASCII, case-insensitive)
// together with the representability side condition. ok=false: not in the language
// (or not representable within the package limits).
func Parse(s string) (v Val, ok bool) {
	i := 0
	if i < len(s) && (s[i] == '+' || s[i] == '-') {
		v.Neg = s[i] == '-'
		i++
	}
	rest := s[i:]
	low := asciiLower(rest)
	isDigits := func(t string) bool {
		for k := 0; k < len(t); k++ {
			if t[k] < '0' || t[k] > '9' {
				return false
			}
		}
		return true
	}
	v.Coef = new(big.Int)
	switch {
	case low == "inf" || low == "infinity":
		v.Form = Inf
		return v, true
	case strings.HasPrefix(low, "nan"):
		if !isDigits(low[3:]) {
			return v, false
		}
		v.Form = NaN
		return v, true
	case strings.HasPrefix(low, "snan"):
		if !isDigits(low[4:]) {
			return v, false
		}
		v.Form = SNaN
		return v, true
	}
	// decimal-part
	k := 0
	intDigits := 0
	for k < len(rest) && rest[k] >= '0' && rest[k] <= '9' {
		k++
		intDigits++
	}
	fracDigits := 0
	if k < len(rest) && rest[k] == '.' {
		k++
		for k < len(rest) && rest[k] >= '0' && rest[k] <= '9' {
			k++
			fracDigits++
		}
	}
	if intDigits+fracDigits == 0 {
		return v, false
	}
	mant := strings.Replace(rest[:k], ".", "", 1)
	exp := new(big.Int)
	if k < len(rest) {
		if rest[k] != 'e' && rest[k] != 'E' {
			return v, false
		}
		k++
		neg := false
		if k < len(rest) && (rest[k] == '+' || rest[k] == '-') {
			neg = rest[k] == '-'
			k++
		}
		if k >= len(rest) || !isDigits(rest[k:]) {
			return v, false
		}
		exp.SetString(rest[k:], 10)
		if neg {
			exp.Neg(exp)
		}
	}
	exp.Sub(exp, big.NewInt(int64(fracDigits)))
	v.Coef.SetString(mant, 10)
	// representability: exponent and adjusted exponent within the package limits
	lim := big.NewInt(Limit)
	nlim := big.NewInt(-Limit)
	if exp.Cmp(lim) > 0 || exp.Cmp(nlim) < 0 {
		return v, false
	}
	v.Exp = int(exp.Int64())
	adj := v.Exp + NDig(v.Coef) - 1
	if adj > Limit || adj < -Limit {
		return v, false
	}
	return v, true
}

func asciiLower(s string) string {
	b := []byte(s)
	for i, c := range b {
		if c >= 'A' && c <= 'Z' {
			b[i] = c + 32
		}
	}
	return string(b)
}
