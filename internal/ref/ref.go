// Package ref is the reference model R: exact integer/rational arithmetic on
// math/big and the GDA rounding rules, written from the specification text and
// independent of apd's code paths.
package ref

import (
	"fmt"
	"math/big"
	"strings"
	"sync"
)

// Forms (same numbering as the GDA classes used by apd, but this package does
// not import apd).
const (
	Finite = 0
	Inf    = 1
	SNaN   = 2
	NaN    = 3
)

// Condition bits, numbered as documented by apd's Condition type.
const (
	SystemOverflow = 1 << iota
	SystemUnderflow
	Overflow
	Underflow
	Inexact
	Subnormal
	Rounded
	DivisionUndefined
	DivisionByZero
	DivisionImpossible
	InvalidOperation
	Clamped
)

// Limit is the package exponent limit.
const Limit = 100000

// Val is a decimal value in the reference model.
type Val struct {
	Form int
	Neg  bool
	Coef *big.Int // non-negative
	Exp  int
}

func (v Val) String() string {
	s := ""
	if v.Neg {
		s = "-"
	}
	switch v.Form {
	case Inf:
		return s + "Infinity"
	case NaN:
		return s + "NaN"
	case SNaN:
		return s + "sNaN"
	}
	return fmt.Sprintf("%s%sE%+d", s, v.Coef.String(), v.Exp)
}

// IsZero reports a finite zero.
func (v Val) IsZero() bool { return v.Form == Finite && v.Coef.Sign() == 0 }

// Sign is -1, 0, +1 of a finite or infinite value.
func (v Val) Sign() int {
	if v.IsZero() {
		return 0
	}
	if v.Neg {
		return -1
	}
	return 1
}

// Adj is the adjusted exponent of a finite value.
func (v Val) Adj() int { return v.Exp + NDig(v.Coef) - 1 }

// Ctx is a context in the reference model.
type Ctx struct {
	P    int // precision, 0 = unlimited
	Emin int
	Emax int
	Mode string // "down","half_up","half_even","ceiling","floor","half_down","up","05up"; anything else = half_up
}

// Etiny is Emin-P+1.
func (c Ctx) Etiny() int { return c.Emin - c.P + 1 }

var (
	ten    = big.NewInt(10)
	one    = big.NewInt(1)
	p10mu  sync.Mutex
	p10tab = map[int]*big.Int{}
)

// Pow10 returns 10^n (n >= 0). The result must not be modified.
func Pow10(n int) *big.Int {
	if n < 0 {
		panic("Pow10 negative")
	}
	p10mu.Lock()
	defer p10mu.Unlock()
	if v, ok := p10tab[n]; ok {
		return v
	}
	v := new(big.Int).Exp(ten, big.NewInt(int64(n)), nil)
	if n <= 4096 || len(p10tab) < 6000 {
		p10tab[n] = v
	}
	return v
}

// NDig is the number of decimal digits of |b| (1 for zero), computed from the
// decimal text (deliberately naive).
func NDig(b *big.Int) int {
	if b.Sign() == 0 {
		return 1
	}
	s := b.String()
	if s[0] == '-' {
		return len(s) - 1
	}
	return len(s)
}

// Exact is an exact or sticky-truncated magnitude: |value| = (N + theta) * 10^E,
// 0 <= theta < 1, Sticky = theta != 0.
type Exact struct {
	Neg    bool
	N      *big.Int
	E      int
	Sticky bool
}

// IsZero reports an exactly zero value.
func (x Exact) IsZero() bool { return x.N.Sign() == 0 && !x.Sticky }

// RoundRes is the outcome of one rounding.
type RoundRes struct {
	V     Val
	Flags int // Inexact, Subnormal, Underflow, Overflow as the GDA defines them
	// Dropped reports whether any digit (zero or not) was discarded (Rounded condition lower bound).
	Dropped bool
	// Unspec: the expectation is not defined by the properties (precision 0 below Emin).
	Unspec bool
}

// roundUp is the 8-row GDA decision table: q is the truncated coefficient,
// half is -1/0/+1 for discarded part </=/> one half of a unit, neg the sign.
// It is only called when the discarded part is non-zero.
func roundUp(mode string, q *big.Int, half int, neg bool) bool {
	switch mode {
	case "down":
		return false
	case "up":
		return true
	case "half_down":
		return half > 0
	case "half_even":
		return half > 0 || (half == 0 && q.Bit(0) == 1)
	case "ceiling":
		return !neg
	case "floor":
		return neg
	case "05up":
		d := new(big.Int).Mod(q, ten).Int64()
		return d == 0 || d == 5
	default: // "half_up", "" and unknown names (documented fallback)
		return half >= 0
	}
}

// Round performs the single rounding of x to context c. The caller must make
// sure that when x.Sticky is set the rounding position lies strictly above
// x.E (see NeedE); otherwise Round panics.
func Round(x Exact, c Ctx) RoundRes {
	r := RoundRes{}
	r.V.Neg = x.Neg
	if x.IsZero() {
		// exact zero: only exponent clamping applies
		e := x.E
		if c.P > 0 {
			if e < c.Etiny() {
				e = c.Etiny()
			}
		} else if e < c.Emin+1 {
			// precision 0: where a zero below the exponent range is clamped to is not
			// specified by any property; the caller must not compare the exponent.
			r.Unspec = true
		}
		if e > c.Emax {
			e = c.Emax
		}
		r.V.Coef = new(big.Int)
		r.V.Exp = e
		return r
	}
	nd := NDig(x.N)
	adj := nd + x.E - 1
	if x.N.Sign() == 0 {
		adj = x.E - 1 // only the sticky part: below 10^E
	}
	target := x.E
	sub := adj < c.Emin
	if sub {
		r.Flags |= Subnormal
	}
	if c.P > 0 {
		target = adj - c.P + 1
		if sub {
			target = c.Etiny()
		}
	} else if sub {
		// unlimited precision below the exponent range: not specified by any
		// property (C01: "subject only to the exponent limits").
		r.Unspec = true
	}
	q := new(big.Int).Set(x.N)
	half := -1
	discarded := false
	if target > x.E {
		r.Dropped = true
		m := Pow10(target - x.E)
		rem := new(big.Int)
		q.QuoRem(x.N, m, rem)
		if rem.Sign() != 0 || x.Sticky {
			discarded = true
		}
		t := new(big.Int).Lsh(rem, 1)
		half = t.Cmp(m)
		if half == 0 && x.Sticky {
			half = 1
		}
	} else {
		target = x.E
		if x.Sticky {
			panic("ref.Round: sticky value not scaled finely enough")
		}
	}
	if discarded {
		r.Flags |= Inexact
		if roundUp(c.Mode, q, half, x.Neg) {
			q.Add(q, one)
			if c.P > 0 && NDig(q) > c.P {
				// all-nines carry: 99.9 -> 100 needs renormalising (also when the
				// subnormal result becomes the smallest normal number)
				q.Quo(q, ten)
				target++
			}
		}
	}
	if sub && r.Flags&Inexact != 0 {
		r.Flags |= Underflow
	}
	r.V.Coef, r.V.Exp = q, target
	if q.Sign() != 0 && NDig(q)+target-1 > c.Emax {
		r.V = Val{Form: Inf, Neg: x.Neg, Coef: new(big.Int)}
		r.Flags |= Overflow | Inexact
	}
	return r
}

// FromVal turns a finite Val into an Exact.
func FromVal(v Val) Exact { return Exact{Neg: v.Neg, N: new(big.Int).Set(v.Coef), E: v.Exp} }

// align returns the coefficients of a and b on the common exponent min(a.Exp,b.Exp).
func align(a, b Val) (*big.Int, *big.Int, int) {
	e := a.Exp
	if b.Exp < e {
		e = b.Exp
	}
	x := new(big.Int).Mul(a.Coef, Pow10(a.Exp-e))
	y := new(big.Int).Mul(b.Coef, Pow10(b.Exp-e))
	return x, y, e
}

// AddExact returns a+b (or a-b) exactly; floorMode selects the sign of an exact zero sum.
func AddExact(a, b Val, sub bool, mode string) Exact {
	bn := b.Neg != sub
	x, y, e := align(a, b)
	if a.Neg {
		x.Neg(x)
	}
	if bn {
		y.Neg(y)
	}
	s := new(big.Int).Add(x, y)
	r := Exact{E: e}
	switch s.Sign() {
	case -1:
		r.Neg = true
		r.N = s.Neg(s)
	case 1:
		r.N = s
	default:
		r.N = s
		if a.Neg == bn {
			r.Neg = a.Neg
		} else {
			r.Neg = mode == "floor"
		}
	}
	return r
}

// MulExact returns a*b exactly.
func MulExact(a, b Val) Exact {
	return Exact{Neg: a.Neg != b.Neg, N: new(big.Int).Mul(a.Coef, b.Coef), E: a.Exp + b.Exp}
}

// QuoExact returns a/b (b != 0) truncated to enough digits for one rounding in c, with sticky.
func QuoExact(a, b Val, c Ctx) Exact {
	neg := a.Neg != b.Neg
	if a.Coef.Sign() == 0 {
		return Exact{Neg: neg, N: new(big.Int), E: a.Exp - b.Exp}
	}
	k := c.P + 3 + NDig(b.Coef) - NDig(a.Coef)
	if k < 0 {
		k = 0
	}
	do := func(k int) Exact {
		num := new(big.Int).Mul(a.Coef, Pow10(k))
		rem := new(big.Int)
		q := new(big.Int)
		q.QuoRem(num, b.Coef, rem)
		return Exact{Neg: neg, N: q, E: a.Exp - b.Exp - k, Sticky: rem.Sign() != 0}
	}
	r := do(k)
	adj := NDig(r.N) + r.E - 1
	if adj < c.Emin && r.E >= c.Etiny() {
		r = do(k + r.E - c.Etiny() + 1)
	}
	return r
}

// IdealQuoExp is the GDA ideal exponent of an exact quotient.
func IdealQuoExp(a, b Val) int { return a.Exp - b.Exp }

// CmpMag compares |a| and |b| of finite values exactly.
func CmpMag(a, b Val) int {
	x, y, _ := align(a, b)
	return x.Cmp(y)
}

// Cmp compares finite or infinite values numerically.
func Cmp(a, b Val) int {
	sa, sb := a.Sign(), b.Sign()
	if sa != sb {
		if sa < sb {
			return -1
		}
		return 1
	}
	if sa == 0 {
		return 0
	}
	var m int
	switch {
	case a.Form == Inf && b.Form == Inf:
		m = 0
	case a.Form == Inf:
		m = 1
	case b.Form == Inf:
		m = -1
	default:
		// cheap decision on adjusted exponents first (avoids 10^100000 scaling)
		aa, ab := a.Adj(), b.Adj()
		if aa != ab {
			if aa < ab {
				m = -1
			} else {
				m = 1
			}
		} else {
			m = CmpMag(a, b)
		}
	}
	if sa < 0 {
		m = -m
	}
	return m
}

// Rat returns the exact rational value of a finite Val.
func Rat(v Val) *big.Rat {
	r := new(big.Rat).SetInt(v.Coef)
	if v.Exp >= 0 {
		r.Mul(r, new(big.Rat).SetInt(Pow10(v.Exp)))
	} else {
		r.Quo(r, new(big.Rat).SetInt(Pow10(-v.Exp)))
	}
	if v.Neg {
		r.Neg(r)
	}
	return r
}

// EqualNumeric reports numeric equality of two finite values including the
// sign of zero, or identical infinities.
func EqualNumeric(a, b Val) bool {
	if a.Form != b.Form {
		return false
	}
	if a.Neg != b.Neg {
		return false
	}
	if a.Form != Finite {
		return true
	}
	za, zb := a.Coef.Sign() == 0, b.Coef.Sign() == 0
	if za || zb {
		return za && zb
	}
	if a.Adj() != b.Adj() {
		return false
	}
	return CmpMag(a, b) == 0
}

// FlagNames renders condition bits.
func FlagNames(f int) string {
	names := []string{"SystemOverflow", "SystemUnderflow", "Overflow", "Underflow", "Inexact", "Subnormal", "Rounded", "DivisionUndefined", "DivisionByZero", "DivisionImpossible", "InvalidOperation", "Clamped"}
	var s []string
	for i, n := range names {
		if f&(1<<uint(i)) != 0 {
			s = append(s, n)
		}
	}
	if f>>12 != 0 {
		s = append(s, fmt.Sprintf("bits(%#x)", f>>12<<12))
	}
	if len(s) == 0 {
		return "none"
	}
	return strings.Join(s, "|")
}

// SqrtExact returns sqrt(v) for finite v >= 0, truncated with sticky, scaled for one rounding in c.
func SqrtExact(v Val, c Ctx) Exact {
	if v.Coef.Sign() == 0 {
		e := v.Exp
		if e%2 != 0 {
			e--
		}
		return Exact{Neg: v.Neg, N: new(big.Int), E: e / 2}
	}
	do := func(k int) Exact {
		n := new(big.Int).Set(v.Coef)
		e := v.Exp
		if e%2 != 0 {
			n.Mul(n, ten)
			e--
		}
		n.Mul(n, Pow10(2*k))
		r := new(big.Int).Sqrt(n)
		sq := new(big.Int).Mul(r, r)
		return Exact{N: r, E: e/2 - k, Sticky: sq.Cmp(n) != 0}
	}
	k := c.P + 3 - (NDig(v.Coef)+1)/2 + 1
	if k < 0 {
		k = 0
	}
	r := do(k)
	if !r.Sticky {
		// exact root: strip nothing, but an exact value needs no further scaling
		return r
	}
	adj := NDig(r.N) + r.E - 1
	if adj < c.Emin && r.E >= c.Etiny() {
		r = do(k + r.E - c.Etiny() + 1)
	}
	return r
}

// DivInt returns q = trunc(|a|/|b|) and r = |a| - q|b| on the common exponent e (b != 0).
func DivInt(a, b Val) (q, r *big.Int, e int) {
	x, y, e := align(a, b)
	q, r = new(big.Int).QuoRem(x, y, new(big.Int))
	return q, r, e
}

// QuantizeRef is the exact-integer oracle for Quantize(x, e): q = x/10^e rounded to an
// integer by the decision table; invalid when q needs more than P digits or e (or the
// result's adjusted exponent) is outside [Etiny, Emax].
func QuantizeRef(x Val, e int, c Ctx) (v Val, inexact, dropped, invalid bool) {
	var q *big.Int
	if e <= x.Exp {
		if x.Coef.Sign() == 0 {
			q = new(big.Int)
		} else {
			if x.Exp-e > 400000 {
				return v, false, false, true
			}
			q = new(big.Int).Mul(x.Coef, Pow10(x.Exp-e))
		}
	} else {
		dropped = true
		if x.Coef.Sign() == 0 {
			q = new(big.Int)
		} else if e-x.Exp > NDig(x.Coef)+1 {
			// everything is discarded and the discarded part is below one half
			q = new(big.Int)
			inexact = true
			if roundUp(c.Mode, q, -1, x.Neg) {
				q.SetInt64(1)
			}
		} else {
			m := Pow10(e - x.Exp)
			rem := new(big.Int)
			q, rem = new(big.Int).QuoRem(x.Coef, m, rem)
			if rem.Sign() != 0 {
				inexact = true
				half := new(big.Int).Lsh(rem, 1).Cmp(m)
				if roundUp(c.Mode, q, half, x.Neg) {
					q.Add(q, one)
				}
			}
		}
	}
	invalid = (c.P > 0 && NDig(q) > c.P) || e < c.Etiny() || e > c.Emax || (q.Sign() != 0 && e+NDig(q)-1 > c.Emax)
	return Val{Neg: x.Neg, Coef: q, Exp: e}, inexact, dropped, invalid
}
