package ref

import (
	"math"
	"math/big"
	"sync"
)

// Real-valued reference functions on big.Float with an explicit relative error
// bound. Every function returns an approximation v and the guarantee
// |v - true| <= |v| * 2^-(prec-guard) for the guard stated below; callers treat
// anything closer to a decision boundary than that bound as undecided.

// Guard bits lost by the algorithms below (series truncation + accumulated
// rounding of O(prec) operations + argument conversion), a conservative bound.
const Guard = 48

func newF(prec uint) *big.Float { return new(big.Float).SetPrec(prec).SetMode(big.ToNearestEven) }

var (
	constMu sync.Mutex
	ln2Tab  = map[uint]*big.Float{}
	ln10Tab = map[uint]*big.Float{}
)

// atanhSmall computes atanh(t) for |t| <= 1/3 by its Taylor series.
func atanhSmall(t *big.Float, prec uint) *big.Float {
	sum := newF(prec).Set(t)
	t2 := newF(prec).Mul(t, t)
	term := newF(prec).Set(t)
	if t.Sign() == 0 {
		return sum
	}
	// stop when the term is below 2^-(prec+8) relative to the sum
	for k := int64(3); ; k += 2 {
		term.Mul(term, t2)
		q := newF(prec).Quo(term, newF(prec).SetInt64(k))
		sum.Add(sum, q)
		if q.Sign() == 0 || q.MantExp(nil)-sum.MantExp(nil) < -int(prec)-8 {
			break
		}
	}
	return sum
}

// Ln2 returns ln 2 = 2 atanh(1/3).
func Ln2(prec uint) *big.Float {
	constMu.Lock()
	defer constMu.Unlock()
	if v, ok := ln2Tab[prec]; ok {
		return v
	}
	third := newF(prec+16).Quo(newF(prec+16).SetInt64(1), newF(prec+16).SetInt64(3))
	v := atanhSmall(third, prec+16)
	v.Mul(v, newF(prec+16).SetInt64(2))
	r := newF(prec).Set(v)
	ln2Tab[prec] = r
	return r
}

// lnPos computes ln(x) for a positive big.Float.
func lnPos(x *big.Float, prec uint) *big.Float {
	one := newF(prec).SetInt64(1)
	half := newF(prec).SetFloat64(0.5)
	two := newF(prec).SetInt64(2)
	direct := func(m *big.Float) *big.Float {
		// ln m = 2 atanh((m-1)/(m+1)), |ratio| <= 1/3 for m in [1/2, 2]
		num := newF(prec).Sub(m, one)
		den := newF(prec).Add(m, one)
		t := newF(prec).Quo(num, den)
		r := atanhSmall(t, prec)
		return r.Mul(r, two)
	}
	if x.Cmp(half) >= 0 && x.Cmp(two) <= 0 {
		return direct(x)
	}
	m := newF(prec)
	e := x.MantExp(m) // x = m * 2^e, m in [0.5, 1)
	r := direct(m)
	el := newF(prec).Mul(newF(prec).SetInt64(int64(e)), Ln2(prec))
	return r.Add(r, el)
}

// Ln10 returns ln 10.
func Ln10(prec uint) *big.Float {
	constMu.Lock()
	if v, ok := ln10Tab[prec]; ok {
		constMu.Unlock()
		return v
	}
	constMu.Unlock()
	v := lnPos(newF(prec+16).SetInt64(10), prec+16)
	r := newF(prec).Set(v)
	constMu.Lock()
	ln10Tab[prec] = r
	constMu.Unlock()
	return r
}

// ExpF computes e^x.
func ExpF(x *big.Float, prec uint) *big.Float {
	if x.Sign() == 0 {
		return newF(prec).SetInt64(1)
	}
	wp := prec + 32
	// x = k ln2 + r
	ln2 := Ln2(wp)
	kf := newF(wp).Quo(x, ln2)
	kfl, _ := kf.Float64()
	k := int64(math.Round(kfl))
	r := newF(wp).Sub(x, newF(wp).Mul(newF(wp).SetInt64(k), ln2))
	// r / 2^m with m = 16
	const m = 16
	r.SetMantExp(r, -m)
	// Taylor
	sum := newF(wp).SetInt64(1)
	term := newF(wp).SetInt64(1)
	for i := int64(1); ; i++ {
		term.Mul(term, r)
		term.Quo(term, newF(wp).SetInt64(i))
		sum.Add(sum, term)
		if term.Sign() == 0 || term.MantExp(nil) < -int(wp)-8 {
			break
		}
	}
	for i := 0; i < m; i++ {
		sum.Mul(sum, sum)
	}
	sum.SetMantExp(sum, int(k))
	return newF(prec).Set(sum)
}

// DecToF converts a finite decimal value to big.Float (correctly rounded) when its exponent is moderate.
func DecToF(v Val, prec uint) *big.Float {
	f := newF(prec).SetRat(Rat(v))
	return f
}

// LnDec computes ln of a positive finite decimal, avoiding cancellation near 1 and huge powers of ten.
func LnDec(v Val, prec uint) *big.Float {
	if abs(v.Exp) <= 64 {
		return lnPos(DecToF(v, prec), prec)
	}
	// ln(c) + e ln 10; |e ln 10| dominates, no cancellation of significance
	c := newF(prec).SetInt(v.Coef)
	r := lnPos(c, prec)
	return r.Add(r, newF(prec).Mul(newF(prec).SetInt64(int64(v.Exp)), Ln10(prec)))
}

func abs(x int) int {
	if x < 0 {
		return -x
	}
	return x
}

// Log10F returns log10 of a big.Float (for locating decades).
func Log10F(x *big.Float) float64 {
	m := new(big.Float)
	e := x.MantExp(m)
	mf, _ := m.Float64()
	return (math.Log2(math.Abs(mf)) + float64(e)) * math.Log10(2)
}

// Pow10F returns 10^n as a big.Float.
func Pow10F(n int, prec uint) *big.Float {
	if n >= 0 {
		return newF(prec).SetInt(Pow10(n))
	}
	return newF(prec).Quo(newF(prec).SetInt64(1), newF(prec).SetInt(Pow10(-n)))
}

// BitsFor returns the binary precision for d decimal digits plus the guard.
func BitsFor(digits int) uint { return uint(float64(digits)*3.33) + Guard + 32 }

// NewF exposes the float constructor.
func NewF(prec uint) *big.Float { return newF(prec) }
