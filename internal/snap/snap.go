// Package snap produces deep, bit-level dumps of arbitrary values (including unexported fields,
// followed pointers, slice capacities) used to detect any write to shared state.
package snap

import (
	"fmt"
	"reflect"
	"sort"
	"strings"
	"unsafe"
)

// Dump returns a canonical deep description of v. Pointers are followed (cycles cut), pointer
// identities are not part of the dump (only what they point to), except for nil-ness.
func Dump(v interface{}) string {
	var sb strings.Builder
	seen := map[unsafe.Pointer]bool{}
	dump(&sb, reflect.ValueOf(v), seen, 0)
	return sb.String()
}

func dump(sb *strings.Builder, v reflect.Value, seen map[unsafe.Pointer]bool, depth int) {
	if depth > 12 {
		sb.WriteString("<deep>")
		return
	}
	switch v.Kind() {
	case reflect.Invalid:
		sb.WriteString("<invalid>")
	case reflect.Ptr:
		if v.IsNil() {
			sb.WriteString("nil")
			return
		}
		p := unsafe.Pointer(v.Pointer())
		if seen[p] {
			sb.WriteString("<cycle>")
			return
		}
		seen[p] = true
		sb.WriteString("&")
		dump(sb, v.Elem(), seen, depth+1)
		delete(seen, p)
	case reflect.Interface:
		if v.IsNil() {
			sb.WriteString("nil")
			return
		}
		dump(sb, v.Elem(), seen, depth+1)
	case reflect.Struct:
		sb.WriteString(v.Type().Name() + "{")
		for i := 0; i < v.NumField(); i++ {
			f := v.Field(i)
			if !f.CanInterface() {
				if f.CanAddr() {
					f = reflect.NewAt(f.Type(), unsafe.Pointer(f.UnsafeAddr())).Elem()
				} else {
					// copy into addressable storage
					c := reflect.New(v.Type()).Elem()
					c.Set(v)
					f = c.Field(i)
					f = reflect.NewAt(f.Type(), unsafe.Pointer(f.UnsafeAddr())).Elem()
				}
			}
			sb.WriteString(v.Type().Field(i).Name + ":")
			dump(sb, f, seen, depth+1)
			sb.WriteString(" ")
		}
		sb.WriteString("}")
	case reflect.Slice:
		if v.IsNil() {
			sb.WriteString("nil[]")
			return
		}
		fmt.Fprintf(sb, "[len=%d cap=%d:", v.Len(), v.Cap())
		full := v.Slice(0, v.Cap())
		for i := 0; i < full.Len(); i++ {
			dump(sb, full.Index(i), seen, depth+1)
			sb.WriteString(",")
		}
		sb.WriteString("]")
	case reflect.Array:
		sb.WriteString("[")
		for i := 0; i < v.Len(); i++ {
			dump(sb, v.Index(i), seen, depth+1)
			sb.WriteString(",")
		}
		sb.WriteString("]")
	case reflect.Map:
		if v.IsNil() {
			sb.WriteString("nilmap")
			return
		}
		var ks []string
		m := map[string]reflect.Value{}
		for _, k := range v.MapKeys() {
			s := fmt.Sprint(k.Interface())
			ks = append(ks, s)
			m[s] = v.MapIndex(k)
		}
		sort.Strings(ks)
		sb.WriteString("map{")
		for _, k := range ks {
			sb.WriteString(k + ":")
			dump(sb, m[k], seen, depth+1)
			sb.WriteString(",")
		}
		sb.WriteString("}")
	case reflect.Func, reflect.Chan, reflect.UnsafePointer:
		if v.IsNil() {
			sb.WriteString("nil")
		} else {
			sb.WriteString("<ref>")
		}
	case reflect.String:
		fmt.Fprintf(sb, "%q", v.String())
	case reflect.Bool:
		fmt.Fprint(sb, v.Bool())
	case reflect.Int, reflect.Int8, reflect.Int16, reflect.Int32, reflect.Int64:
		fmt.Fprint(sb, v.Int())
	case reflect.Uint, reflect.Uint8, reflect.Uint16, reflect.Uint32, reflect.Uint64, reflect.Uintptr:
		fmt.Fprintf(sb, "%#x", v.Uint())
	case reflect.Float32, reflect.Float64:
		fmt.Fprint(sb, v.Float())
	default:
		fmt.Fprintf(sb, "<%s>", v.Kind())
	}
}
