// Package core is the common machinery of every check: sharding over worker
// subprocesses, counting, outcome histograms, samples, violations, known
// findings, replay files and evidence files.
package core

import (
	"crypto/sha1"
	"encoding/json"
	"fmt"
	"os"
	"os/exec"
	"path/filepath"
	"runtime/debug"
	"sort"
	"strconv"
	"strings"
	"sync"
	"sync/atomic"
	"time"
)

// VerifDir is where evidence, replays and known findings live.
var VerifDir = "/verif"

// Prop is one property check.
type Prop struct {
	ID    string
	Title string
	// Rule describes the enumerated space and what makes a case non-trivial.
	Rule string
	// Bounds returns a human-readable statement of the bounds for the tier.
	Bounds func(tier string) string
	// Run enumerates this worker's shard of the space and checks every case.
	Run func(e *Env)
	// Replay re-executes one recorded case; returns failure text or "".
	Replay func(kind string, raw json.RawMessage) string
	// Assumptions are written into the evidence file.
	Assumptions []string
	// Shadow: the check needs the instrumented build (tag verif).
	Shadow bool
	// Serial: run with a single worker (used by schedulers that shard themselves).
	Workers func(tier string) int
}

var registry = map[string]*Prop{}

// RacePass is set by the instrumented build: runs the free-running bodies of C18 (used by the -race binary).
var RacePass func(reps int) int

// SelfTest validates the reference model against the GDA vector files of the given directory.
var SelfTest func(dir string) int

// Register adds a property to the registry.
func Register(p *Prop) { registry[p.ID] = p }

// Lookup finds a property.
func Lookup(id string) *Prop { return registry[id] }

// IDs lists registered ids.
func IDs() []string {
	var s []string
	for k := range registry {
		s = append(s, k)
	}
	sort.Strings(s)
	return s
}

// Violation is one failing case.
type Violation struct {
	Class string          `json:"class"` // input-class tag used for known-finding matching
	Kind  string          `json:"kind"`  // which sub-check / case type (for replay)
	Case  json.RawMessage `json:"case"`
	Msg   string          `json:"msg"`
}

// Result is what one worker reports.
type Result struct {
	Shard       int              `json:"shard"`
	States      int64            `json:"states"`
	Transitions int64            `json:"transitions"`
	Validated   int64            `json:"validated"`
	Nontrivial  int64            `json:"nontrivial"`
	Undecided   int64            `json:"undecided"`
	Hist        map[string]int64 `json:"hist"`
	Samples     []interface{}    `json:"samples"`
	Violations  []Violation      `json:"violations"`
	NViol       int64            `json:"nviol"`
	ViolByClass map[string]int64 `json:"viol_by_class"`
	Capped      []string         `json:"capped"`
	Notes       map[string]int64 `json:"notes"`
	Extra       map[string]interface{} `json:"extra,omitempty"`
	Panic       string           `json:"panic,omitempty"`
	WallS       float64          `json:"wall_s"`
}

// Env is handed to Prop.Run in a worker.
type Env struct {
	ID      string
	Tier    string
	Seed    int64
	Shard   int
	NShards int
	R       Result

	deadline time.Time
	nsample  int64
	current  atomic.Value // string: description of the running case (watchdog)
	progress int64
	mu       sync.Mutex
}

// Thorough reports whether the tier is thorough.
func (e *Env) Thorough() bool { return e.Tier == "thorough" }

// Mine reports whether index k belongs to this worker.
func (e *Env) Mine(k int64) bool { return int(k%int64(e.NShards)) == e.Shard }

// Expired reports whether the soft deadline passed (then the run is reported as capped).
func (e *Env) Expired() bool {
	if e.deadline.IsZero() {
		return false
	}
	return time.Now().After(e.deadline)
}

// Cap records that a bound was cut short.
func (e *Env) Cap(what string) {
	for _, c := range e.R.Capped {
		if c == what {
			return
		}
	}
	e.R.Capped = append(e.R.Capped, what)
}

// State counts one enumerated input point.
func (e *Env) State() { e.R.States++ }

// Trans counts n applications of the real code compared against the oracle.
func (e *Env) Trans(n int64) { e.R.Transitions += n; e.R.Validated += n; atomic.AddInt64(&e.progress, n) }

// TransOnly counts executions that were run but not compared to a reference prediction.
func (e *Env) TransOnly(n int64) { e.R.Transitions += n; atomic.AddInt64(&e.progress, n) }

// Outcome records the outcome class of a case; trivial ones are not counted as nontrivial.
func (e *Env) Outcome(class string, trivial bool) {
	e.R.Hist[class]++
	if !trivial {
		e.R.Nontrivial++
	}
}

// Note counts an informational event.
func (e *Env) Note(k string) { e.R.Notes[k]++ }

// Undecided counts a case the oracle could not decide (never a violation).
func (e *Env) Undecided() { e.R.Undecided++ }

// Running tells the watchdog what is executing.
func (e *Env) Running(desc func() string) { e.current.Store(desc) }

// WantSample reports whether the caller should provide a sample for this case.
func (e *Env) WantSample() bool {
	e.nsample++
	n := e.nsample
	if n <= 3 {
		return true
	}
	for p := int64(10); p <= n; p *= 10 {
		if n == p {
			return true
		}
	}
	return false
}

// Sample stores a written-out case.
func (e *Env) Sample(v interface{}) {
	if len(e.R.Samples) < 40 {
		e.R.Samples = append(e.R.Samples, v)
	}
}

const maxViolPerWorker = 40

// Fail records a violation.
func (e *Env) Fail(class, kind string, c interface{}, msg string) {
	e.R.NViol++
	e.R.ViolByClass[class]++
	// keep the first few per class so that every class has a replay
	n := 0
	for _, v := range e.R.Violations {
		if v.Class == class {
			n++
		}
	}
	if n >= 3 || len(e.R.Violations) >= maxViolPerWorker {
		return
	}
	raw, err := json.Marshal(c)
	if err != nil {
		raw = []byte(strconv.Quote(fmt.Sprint(c)))
	}
	e.R.Violations = append(e.R.Violations, Violation{Class: class, Kind: kind, Case: raw, Msg: msg})
}

// ---------------------------------------------------------------------------
// worker side

// WorkerMain runs one shard and writes the result file.
func WorkerMain(id, tier string, seed int64, shard, nshards int, out string, softSecs int) {
	p := Lookup(id)
	if p == nil {
		fmt.Fprintln(os.Stderr, "unknown property", id)
		os.Exit(2)
	}
	e := &Env{ID: id, Tier: tier, Seed: seed, Shard: shard, NShards: nshards}
	e.R.Shard = shard
	e.R.Hist = map[string]int64{}
	e.R.ViolByClass = map[string]int64{}
	e.R.Notes = map[string]int64{}
	if softSecs > 0 {
		e.deadline = time.Now().Add(time.Duration(softSecs) * time.Second)
	}
	t0 := time.Now()
	write := func() {
		e.R.WallS = time.Since(t0).Seconds()
		b, _ := json.Marshal(&e.R)
		os.WriteFile(out, b, 0o644)
	}
	// watchdog: a single case that runs for more than hangSecs is a hang.
	go func() {
		last := int64(-1)
		var since time.Time
		for {
			time.Sleep(2 * time.Second)
			cur := atomic.LoadInt64(&e.progress)
			if cur != last {
				last, since = cur, time.Now()
				continue
			}
			if time.Since(since) > HangLimit {
				desc := "unknown"
				if f, ok := e.current.Load().(func() string); ok && f != nil {
					desc = f()
				}
				e.mu.Lock()
				e.R.Panic = "HANG: no progress for " + HangLimit.String() + " in: " + desc
				write()
				os.Exit(3)
			}
		}
	}()
	func() {
		defer func() {
			if r := recover(); r != nil {
				e.R.Panic = fmt.Sprintf("harness panic: %v\n%s", r, debug.Stack())
			}
		}()
		p.Run(e)
	}()
	e.mu.Lock()
	write()
	if e.R.Panic != "" {
		os.Exit(2)
	}
	os.Exit(0)
}

// HangLimit is the no-progress limit of the watchdog.
var HangLimit = 180 * time.Second

// ---------------------------------------------------------------------------
// parent side

// KnownFinding is one entry of known_findings.json.
type KnownFinding struct {
	Property string          `json:"property"`
	Status   string          `json:"status"` // "known" or "fixed"
	Class    string          `json:"class"`
	Commit   string          `json:"commit,omitempty"`
	What     string          `json:"what"`
	Witness  json.RawMessage `json:"witness,omitempty"`
}

func loadKnown() []KnownFinding {
	b, err := os.ReadFile(filepath.Join(VerifDir, "known_findings.json"))
	if err != nil {
		return nil
	}
	var f struct {
		Findings []KnownFinding `json:"findings"`
	}
	if err := json.Unmarshal(b, &f); err != nil {
		fmt.Fprintln(os.Stderr, "known_findings.json:", err)
		os.Exit(2)
	}
	return f.Findings
}

// ParentMain runs all shards of a property, merges, writes evidence, prints verdict.
func ParentMain(self, id, tier string, seed int64, nworkers, softSecs int) int {
	p := Lookup(id)
	if p == nil {
		fmt.Fprintln(os.Stderr, "unknown property", id)
		return 2
	}
	if p.Workers != nil {
		if w := p.Workers(tier); w > 0 {
			nworkers = w
		}
	}
	t0 := time.Now()
	tmp, err := os.MkdirTemp("", "vcheck-"+id+"-")
	if err != nil {
		fmt.Fprintln(os.Stderr, err)
		return 2
	}
	defer os.RemoveAll(tmp)
	type wres struct {
		r   Result
		err error
		out string
	}
	results := make([]wres, nworkers)
	var wg sync.WaitGroup
	for i := 0; i < nworkers; i++ {
		wg.Add(1)
		go func(i int) {
			defer wg.Done()
			out := filepath.Join(tmp, fmt.Sprintf("w%d.json", i))
			cmd := exec.Command(self, "worker", id, "--tier", tier, "--seed", strconv.FormatInt(seed, 10),
				"--shard", strconv.Itoa(i), "--nshards", strconv.Itoa(nworkers), "--out", out, "--soft", strconv.Itoa(softSecs))
			cmd.Env = append(os.Environ(), "GOMAXPROCS=2")
			ob, err := cmd.CombinedOutput()
			results[i].out = string(ob)
			b, rerr := os.ReadFile(out)
			if rerr != nil {
				results[i].err = fmt.Errorf("worker %d: no result (%v): %s", i, err, tail(string(ob), 2000))
				return
			}
			if jerr := json.Unmarshal(b, &results[i].r); jerr != nil {
				results[i].err = fmt.Errorf("worker %d: bad result: %v", i, jerr)
			}
		}(i)
	}
	wg.Wait()

	var m Result
	m.Hist = map[string]int64{}
	m.ViolByClass = map[string]int64{}
	m.Notes = map[string]int64{}
	m.Extra = map[string]interface{}{}
	harnessErr := false
	for i := range results {
		if results[i].err != nil {
			fmt.Fprintln(os.Stderr, "HARNESS-ERROR:", results[i].err)
			harnessErr = true
			continue
		}
		r := &results[i].r
		if r.Panic != "" {
			if strings.HasPrefix(r.Panic, "HANG:") {
				// A hang is a totality violation of the code under test; it is reported
				// through the violation channel of this property with class "hang".
				raw, _ := json.Marshal(r.Panic)
				r.Violations = append(r.Violations, Violation{Class: "hang", Kind: "hang", Case: raw, Msg: r.Panic})
				r.NViol++
				if r.ViolByClass == nil {
					r.ViolByClass = map[string]int64{}
				}
				r.ViolByClass["hang"]++
			} else {
				fmt.Fprintln(os.Stderr, "HARNESS-ERROR: worker", i, r.Panic)
				harnessErr = true
			}
		}
		m.States += r.States
		m.Extra[fmt.Sprintf("worker_wall_s.%02d", i)] = r.WallS
		m.Transitions += r.Transitions
		m.Validated += r.Validated
		m.Nontrivial += r.Nontrivial
		m.Undecided += r.Undecided
		m.NViol += r.NViol
		for k, v := range r.Hist {
			m.Hist[k] += v
		}
		for k, v := range r.ViolByClass {
			m.ViolByClass[k] += v
		}
		for k, v := range r.Notes {
			m.Notes[k] += v
		}
		for k, v := range r.Extra {
			m.Extra[fmt.Sprintf("w%d.%s", i, k)] = v
		}
		for _, c := range r.Capped {
			found := false
			for _, d := range m.Capped {
				if c == d {
					found = true
				}
			}
			if !found {
				m.Capped = append(m.Capped, c)
			}
		}
		if len(m.Samples) < 24 {
			n := 2
			if len(r.Samples) < n {
				n = len(r.Samples)
			}
			m.Samples = append(m.Samples, r.Samples[:n]...)
			if len(r.Samples) > n && len(m.Samples) < 24 {
				m.Samples = append(m.Samples, r.Samples[len(r.Samples)-1])
			}
		}
		m.Violations = append(m.Violations, r.Violations...)
	}

	// classify violations against the known-findings file
	known := loadKnown()
	knownClass := map[string]KnownFinding{}
	for _, k := range known {
		if k.Property == id && k.Status == "known" {
			knownClass[k.Class] = k
		}
	}
	exit := 0
	printedKnown := map[string]bool{}
	newViol := int64(0)
	for cls, n := range m.ViolByClass {
		if _, ok := knownClass[cls]; !ok {
			newViol += n
		}
	}
	os.MkdirAll(filepath.Join(VerifDir, "replays", id), 0o755)
	printed := 0
	sort.SliceStable(m.Violations, func(i, j int) bool { return m.Violations[i].Class < m.Violations[j].Class })
	perClass := map[string]int{}
	for _, v := range m.Violations {
		if k, ok := knownClass[v.Class]; ok {
			if !printedKnown[v.Class] {
				printedKnown[v.Class] = true
				fmt.Printf("KNOWN-FINDING: property=%s class=%s cases=%d %s\n", id, v.Class, m.ViolByClass[v.Class], k.What)
			}
			continue
		}
		exit = 1
		perClass[v.Class]++
		if perClass[v.Class] > 2 || printed >= 12 {
			continue
		}
		printed++
		path := writeReplay(id, v)
		fmt.Printf("VIOLATION property=%s replay=%s\n", id, path)
		fmt.Printf("  class=%s (%d cases) %s\n", v.Class, m.ViolByClass[v.Class], oneLine(v.Msg, 600))
	}
	if newViol > 0 {
		exit = 1
	}
	if harnessErr && exit == 0 {
		exit = 2
	}

	// evidence
	wall := time.Since(t0).Seconds()
	exhaustive := len(m.Capped) == 0 && !harnessErr
	cov := map[string]interface{}{
		"states":                        m.States,
		"transitions":                   m.Transitions,
		"traces_validated_against_impl": m.Validated,
		"evaluations":                   m.Transitions,
		"distinct_nontrivial":           m.Nontrivial,
		"rule":                          p.Rule,
		"samples":                       m.Samples,
		"exhaustive":                    exhaustive,
		"outcome_classes":               m.Hist,
		"distinct_outcome_classes":      len(m.Hist),
		"undecided":                     m.Undecided,
		"caps_hit":                      m.Capped,
		"workers":                       nworkers,
		"notes":                         m.Notes,
		"violations_by_class":           m.ViolByClass,
		"known_finding_classes":         keys(printedKnown),
	}
	if p.Bounds != nil {
		cov["bounds"] = p.Bounds(tier)
	}
	for k, v := range m.Extra {
		cov[k] = v
	}
	if len(m.Samples) == 0 {
		cov["samples"] = []interface{}{"(no sample recorded)"}
	}
	ev := map[string]interface{}{
		"property_id": id,
		"tier":        tier,
		"seed":        seed,
		"level":       "model_checking",
		"coverage":    cov,
		"assumptions": p.Assumptions,
		"wall_s":      wall,
		"violations":  newViol,
	}
	os.MkdirAll(filepath.Join(VerifDir, "evidence"), 0o755)
	b, _ := json.MarshalIndent(ev, "", " ")
	if err := os.WriteFile(filepath.Join(VerifDir, "evidence", id+".json"), b, 0o644); err != nil {
		fmt.Fprintln(os.Stderr, "HARNESS-ERROR: evidence:", err)
		if exit == 0 {
			exit = 2
		}
	}
	fmt.Printf("%s tier=%s states=%d transitions=%d nontrivial=%d classes=%d undecided=%d violations=%d known=%d exhaustive=%v wall=%.1fs\n",
		id, tier, m.States, m.Transitions, m.Nontrivial, len(m.Hist), m.Undecided, newViol, m.NViol-newViol, exhaustive, wall)
	return exit
}

func keys(m map[string]bool) []string {
	s := []string{}
	for k := range m {
		s = append(s, k)
	}
	sort.Strings(s)
	return s
}

func tail(s string, n int) string {
	if len(s) > n {
		return s[len(s)-n:]
	}
	return s
}

func oneLine(s string, n int) string {
	s = strings.ReplaceAll(s, "\n", " | ")
	if len(s) > n {
		s = s[:n] + "…"
	}
	return s
}

// ReplayFile is the on-disk form of a violation.
type ReplayFile struct {
	Property string          `json:"property"`
	Class    string          `json:"class"`
	Kind     string          `json:"kind"`
	Case     json.RawMessage `json:"case"`
	Msg      string          `json:"msg"`
}

func writeReplay(id string, v Violation) string {
	rf := ReplayFile{Property: id, Class: v.Class, Kind: v.Kind, Case: v.Case, Msg: v.Msg}
	b, _ := json.MarshalIndent(rf, "", " ")
	h := sha1.Sum(append([]byte(v.Kind+v.Class), v.Case...))
	path := filepath.Join(VerifDir, "replays", id, fmt.Sprintf("%x.json", h[:6]))
	os.WriteFile(path, b, 0o644)
	return path
}

// ReplayMain re-executes a recorded case.
func ReplayMain(path string) int {
	b, err := os.ReadFile(path)
	if err != nil {
		fmt.Fprintln(os.Stderr, err)
		return 2
	}
	var rf ReplayFile
	if err := json.Unmarshal(b, &rf); err != nil {
		fmt.Fprintln(os.Stderr, err)
		return 2
	}
	p := Lookup(rf.Property)
	if p == nil || p.Replay == nil {
		fmt.Fprintln(os.Stderr, "no replay for", rf.Property)
		return 2
	}
	msg := p.Replay(rf.Kind, rf.Case)
	if msg != "" {
		fmt.Printf("VIOLATION property=%s replay=%s\n  %s\n", rf.Property, path, oneLine(msg, 1000))
		return 1
	}
	fmt.Printf("replay of %s: property %s holds on this case\n", path, rf.Property)
	return 0
}
