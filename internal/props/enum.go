// Package props holds one file per property plus the shared operand and
// context families.
package props

import (
	"fmt"
	"math/big"
	"sort"

	"github.com/cockroachdb/apd/v3"

	"verif/internal/ref"
)

// DecJ is the JSON form of a decimal (raw fields).
type DecJ struct {
	Form int    `json:"form"`
	Neg  bool   `json:"neg"`
	Coef string `json:"coef"`
	Exp  int32  `json:"exp"`
	Heap bool   `json:"heap,omitempty"` // coefficient presented heap-backed
	Text string `json:"text,omitempty"`
}

// CtxJ is the JSON form of a context.
type CtxJ struct {
	P     uint32 `json:"precision"`
	Emin  int32  `json:"emin"`
	Emax  int32  `json:"emax"`
	Mode  string `json:"rounding"`
	Traps uint32 `json:"traps"`
}

// Operand is an apd value with its reference twin.
type Operand struct {
	D *apd.Decimal
	V ref.Val
	J DecJ
}

// Build makes an apd.Decimal from raw fields.
func (j DecJ) Build() *apd.Decimal {
	d := new(apd.Decimal)
	b, ok := new(big.Int).SetString(j.Coef, 10)
	if !ok {
		b = new(big.Int)
	}
	d.Coeff.SetMathBigInt(b)
	if j.Heap {
		if b.Sign() == 0 {
			// a heap-backed zero: a value beyond the inline array minus itself (a BigInt never moves back inline)
			d.Coeff.SetMathBigInt(new(big.Int).Lsh(big.NewInt(1), 200))
			d.Coeff.Sub(&d.Coeff, &d.Coeff)
		} else {
			// grow beyond the inline array, then shrink: leaves a heap-backed small value
			d.Coeff.Lsh(&d.Coeff, 200)
			d.Coeff.Rsh(&d.Coeff, 200)
		}
	}
	d.Form = apd.Form(j.Form)
	d.Negative = j.Neg
	d.Exponent = j.Exp
	return d
}

// Val returns the reference twin.
func (j DecJ) Val() ref.Val {
	b, _ := new(big.Int).SetString(j.Coef, 10)
	if b == nil {
		b = new(big.Int)
	}
	return ref.Val{Form: j.Form, Neg: j.Neg, Coef: b, Exp: int(j.Exp)}
}

// Op builds the operand.
func (j DecJ) Op() Operand { return Operand{D: j.Build(), V: j.Val(), J: j} }

// ToJ describes an apd.Decimal by raw fields.
func ToJ(d *apd.Decimal) DecJ {
	return DecJ{Form: int(d.Form), Neg: d.Negative, Coef: d.Coeff.MathBigInt().String(), Exp: d.Exponent, Text: safeString(d)}
}

func safeString(d *apd.Decimal) (s string) {
	defer func() {
		if r := recover(); r != nil {
			s = fmt.Sprintf("<String panics: %v>", r)
		}
	}()
	if d.Form == apd.Finite && (d.Exponent > 3000 || d.Exponent < -3000) {
		return fmt.Sprintf("%sE%d", d.Coeff.String(), d.Exponent)
	}
	return d.String()
}

// ToVal converts an apd.Decimal to the reference representation (reads only
// exported fields and MathBigInt).
func ToVal(d *apd.Decimal) ref.Val {
	return ref.Val{Form: int(d.Form), Neg: d.Negative, Coef: d.Coeff.MathBigInt(), Exp: int(d.Exponent)}
}

// Fin makes a finite operand.
func Fin(coef int64, exp int32, neg bool) Operand {
	return DecJ{Coef: fmt.Sprint(coef), Exp: exp, Neg: neg}.Op()
}

// FinBig makes a finite operand from a big coefficient.
func FinBig(coef *big.Int, exp int32, neg bool) Operand {
	return DecJ{Coef: coef.String(), Exp: exp, Neg: neg}.Op()
}

// Dense is DENSE(k,w): every coefficient in [0,10^k) x every exponent in [-w,w] x both signs.
func Dense(k, w int) []Operand {
	lim := int64(1)
	for i := 0; i < k; i++ {
		lim *= 10
	}
	var out []Operand
	for c := int64(0); c < lim; c++ {
		for e := -w; e <= w; e++ {
			out = append(out, Fin(c, int32(e), false), Fin(c, int32(e), true))
		}
	}
	return out
}

// DenseSel is DENSE restricted to coefficients accepted by keep.
func DenseSel(k, w int, keep func(c int64) bool) []Operand {
	lim := int64(1)
	for i := 0; i < k; i++ {
		lim *= 10
	}
	var out []Operand
	for c := int64(0); c < lim; c++ {
		if !keep(c) {
			continue
		}
		for e := -w; e <= w; e++ {
			out = append(out, Fin(c, int32(e), false), Fin(c, int32(e), true))
		}
	}
	return out
}

func bigOf(s string) *big.Int {
	b, ok := new(big.Int).SetString(s, 10)
	if !ok {
		panic("bad big " + s)
	}
	return b
}

func pow2(n uint) *big.Int { return new(big.Int).Lsh(big.NewInt(1), n) }

// EdgeCoefs is the coefficient set of the EDGE family.
func EdgeCoefs() []*big.Int {
	var out []*big.Int
	add := func(b *big.Int) {
		if b.Sign() >= 0 {
			out = append(out, b)
		}
	}
	for _, n := range []int{0, 1, 2, 3, 4, 5, 6, 17, 18, 19, 20, 37, 38, 39, 45, 77} {
		p := ref.Pow10(n)
		p5 := new(big.Int).Mul(p, big.NewInt(5))
		for _, d := range []int64{-1, 0, 1} {
			add(new(big.Int).Add(p, big.NewInt(d)))
			add(new(big.Int).Add(p5, big.NewInt(d)))
		}
	}
	for _, n := range []uint{63, 64, 127, 128, 200} {
		for _, d := range []int64{-1, 0, 1} {
			add(new(big.Int).Add(pow2(n), big.NewInt(d)))
		}
	}
	// dedupe
	sort.Slice(out, func(i, j int) bool { return out[i].Cmp(out[j]) < 0 })
	var u []*big.Int
	for i, b := range out {
		if i == 0 || b.Cmp(out[i-1]) != 0 {
			u = append(u, b)
		}
	}
	return u
}

// EdgeExps is the exponent set of the EDGE family.
var EdgeExps = []int32{-140, -129, -128, -127, -40, -1, 0, 1, 40, 127, 128, 129, 140}

// Edge is the EDGE family.
func Edge(exps []int32) []Operand {
	var out []Operand
	for _, c := range EdgeCoefs() {
		for _, e := range exps {
			out = append(out, FinBig(c, e, false), FinBig(c, e, true))
		}
	}
	return out
}

// Modes8 are the eight rounding modes.
var Modes8 = []apd.Rounder{apd.RoundDown, apd.RoundHalfUp, apd.RoundHalfEven, apd.RoundCeiling, apd.RoundFloor, apd.RoundHalfDown, apd.RoundUp, apd.Round05Up}

// CtxCase is an apd context and its reference twin.
type CtxCase struct {
	C apd.Context
	R ref.Ctx
}

// MkCtx builds a context pair.
func MkCtx(p uint32, emin, emax int32, mode apd.Rounder, traps apd.Condition) CtxCase {
	return CtxCase{
		C: apd.Context{Precision: p, MinExponent: emin, MaxExponent: emax, Rounding: mode, Traps: traps},
		R: ref.Ctx{P: int(p), Emin: int(emin), Emax: int(emax), Mode: string(mode)},
	}
}

// J describes the context.
func (c CtxCase) J() CtxJ {
	return CtxJ{P: c.C.Precision, Emin: c.C.MinExponent, Emax: c.C.MaxExponent, Mode: string(c.C.Rounding), Traps: uint32(c.C.Traps)}
}

// Ctx rebuilds the pair from JSON.
func (j CtxJ) Ctx() CtxCase {
	return MkCtx(j.P, j.Emin, j.Emax, apd.Rounder(j.Mode), apd.Condition(j.Traps))
}

// Ranges returns the exponent ranges of the CTX family for precision p:
// tight ranges making subnormal, Etiny, clamping and overflow dense, plus wide ones.
func Ranges(p uint32, wide bool) [][2]int32 {
	ip := int32(p)
	if ip == 0 {
		ip = 1
	}
	var out [][2]int32
	seen := map[[2]int32]bool{}
	for _, emin := range []int32{0, -1, -3} {
		for _, emax := range []int32{ip, ip + 2, 9} {
			if emax < ip {
				continue
			}
			k := [2]int32{emin, emax}
			if !seen[k] {
				seen[k] = true
				out = append(out, k)
			}
		}
	}
	if wide {
		out = append(out, [2]int32{-6143, 6144}, [2]int32{-100000, 100000})
	}
	return out
}

// Contexts returns precisions x ranges x modes (modes may include "" and "bogus").
func Contexts(precs []uint32, wide bool, modes []apd.Rounder) []CtxCase {
	var out []CtxCase
	for _, p := range precs {
		for _, r := range Ranges(p, wide) {
			for _, m := range modes {
				out = append(out, MkCtx(p, r[0], r[1], m, 0))
			}
		}
	}
	return out
}

// ModesAll is the eight modes plus the empty default and an unknown name.
var ModesAll = append(append([]apd.Rounder{}, Modes8...), "", "bogus")

// nearLimit reports whether a finite operand lives near the package exponent
// limits, where system-limit errors are an accepted outcome.
func nearLimit(vs ...ref.Val) bool {
	for _, v := range vs {
		if v.Form != ref.Finite || v.Coef == nil { // nil: the absent second operand of a unary operation
			continue
		}
		if abs(v.Exp) > 99000 || abs(v.Adj()) > 99000 {
			return true
		}
	}
	return false
}

func abs(x int) int {
	if x < 0 {
		return -x
	}
	return x
}

// isSysErr reports whether a returned (Condition, error) pair is a system-limit outcome.
func isSysErr(res apd.Condition, err error) bool {
	if err == nil {
		return false
	}
	if res&(apd.SystemOverflow|apd.SystemUnderflow) != 0 {
		return true
	}
	return containsStr(err.Error(), "exponent out of range")
}

func containsStr(s, sub string) bool {
	for i := 0; i+len(sub) <= len(s); i++ {
		if s[i:i+len(sub)] == sub {
			return true
		}
	}
	return false
}

// Near128 returns, for every k in 1..19, coefficients a whose exact rescaling a*10^k lands just below, at and
// just above 2^128 (and 2^64 for the short ones): the carry out of the 128-bit inline representation.
func Near128() (out []struct {
	A *big.Int
	K int
}) {
	for k := 1; k <= 19; k++ {
		pk := ref.Pow10(k)
		for _, top := range []*big.Int{pow2(128), new(big.Int).Add(pow2(128), new(big.Int).Mul(pk, pow2(63))), pow2(64)} {
			base := new(big.Int).Quo(top, pk)
			for j := int64(-1); j <= 2; j++ {
				a := new(big.Int).Add(base, big.NewInt(j))
				if a.Sign() > 0 {
					out = append(out, struct {
						A *big.Int
						K int
					}{a, k})
				}
			}
		}
	}
	return out
}
