//go:build verif

package props

import (
	"encoding/json"
	"fmt"
	"go/ast"
	"go/parser"
	"go/token"
	"math"
	"math/big"
	"math/rand"
	"os"
	"path/filepath"
	"reflect"
	"sort"
	"strings"

	"github.com/cockroachdb/apd/v3"

	"verif/internal/core"
	"verif/internal/ref"
)

// C04: operations are total - no panic and no hang on any well-formed input; text input never
// produces an ill-formed value. A reflection-driven harness calls every exported function and method
// of the package (the list is taken from the AST of the tree under test and cross-checked against the
// methods reachable by reflection) with arguments generated per parameter type from finite pools.

const c04Fuel = 30_000_000 // loop-body entries inside package apd per call (largest legitimate count measured: < 1e6)

type fuelExhausted struct{}

type c04Case struct {
	Recv   string   `json:"recv"`
	Method string   `json:"method"`
	Args   []string `json:"args"`
	RecvIx int      `json:"recv_index"`
	ArgIx  []int    `json:"arg_index"`
}

// pools of well-formed values per type.
type c04Pools struct {
	dec    []DecJ
	ctx    []apd.Context
	bigs   []c16Arg
	str    []string
	i32    []int32
	ints   []int
	uints  []uint
	i64    []int64
	u64    []uint64
	bytes_ []byte
	runes  []rune
	iface  []interface{}
	conds  []apd.Condition
	round  []apd.Rounder
	f64    []float64
	words  [][]big.Word
	bools  []bool
}

func c04MakePools(tier string) *c04Pools {
	p := &c04Pools{}
	for _, o := range DenseSel(2, 4, func(c int64) bool { return c < 3 || c == 5 || c == 10 || c == 50 || c == 99 }) {
		if o.V.Exp%2 == 0 || tier == "thorough" {
			p.dec = append(p.dec, o.J)
		}
	}
	for i, o := range Edge([]int32{-129, 0, 128}) {
		if i%4 == 0 || tier == "thorough" {
			p.dec = append(p.dec, o.J)
		}
	}
	// the package limits (each operation on them costs milliseconds; thorough uses the whole LIMIT family)
	if tier == "thorough" {
		for _, o := range limitOperands() {
			p.dec = append(p.dec, o.J)
		}
	} else {
		p.dec = append(p.dec, DecJ{Coef: "1", Exp: 100000}, DecJ{Coef: "1", Exp: -100000}, DecJ{Coef: "99", Exp: 99998, Neg: true}, DecJ{Coef: "0", Exp: -100000, Neg: true}, DecJ{Coef: "0", Exp: 100000}, DecJ{Coef: "10", Exp: -100000})
	}
	for _, o := range c08Alphabet() {
		if o.V.Form != ref.Finite || o.V.Coef.Sign() == 0 {
			p.dec = append(p.dec, o.J)
		}
	}
	p.dec = append(p.dec, DecJ{Coef: "1", Heap: true}, DecJ{Coef: "101", Exp: -2}, DecJ{Coef: "12345678901234567890123456789012345678901234567890", Exp: -25, Neg: true}, DecJ{Coef: "9223372036854775808"}, DecJ{Coef: "25", Exp: -1})
	for _, pr := range []uint32{0, 1, 3, 9, 34} {
		for _, r := range [][2]int32{{0, 9}, {-1, 5}, {-6143, 6144}, {-100000, 100000}} {
			if r[1] < int32(pr) {
				continue
			}
			for _, tr := range []apd.Condition{0, apd.DefaultTraps, 4095} {
				for _, m := range []apd.Rounder{apd.RoundHalfEven, apd.RoundFloor, apd.Round05Up, "", "bogus"} {
					if (m == "" || m == "bogus" || m == apd.Round05Up) && (tr != 0 || r[0] != -1) {
						continue
					}
					p.ctx = append(p.ctx, apd.Context{Precision: pr, MinExponent: r[0], MaxExponent: r[1], Traps: tr, Rounding: m})
				}
			}
		}
	}
	for i := range c16Alphabet {
		p.bigs = append(p.bigs, c16Arg{Idx: i})
		if c16Alphabet[i].BitLen() <= 128 && i%3 == 0 {
			p.bigs = append(p.bigs, c16Arg{Idx: i, Heap: true})
		}
	}
	p.str = append(p.str, c14Seeds()...)
	for _, a := range c14Sigma {
		for _, b := range c14Sigma {
			p.str = append(p.str, a+b)
		}
	}
	p.str = append(p.str, "", "1e100000", "1e100001", "1e-100001", "0.1e100001", "123.45e-99999", "9e2147483647", "1e99999999999999999999", strings.Repeat("9", 5000), "0."+strings.Repeat("0", 3000)+"1",
		"nan"+strings.Repeat("7", 100), ".-5", "nansnan", "İnf", "\xff\xfe", "1_000", "0x10", "١٢٣", "+", "-", ".", "e", "E5", "--1", "1e", "1e+", "Infinit", "infinityy", "sNaN-1")
	p.i32 = []int32{math.MinInt32, -100001, -100000, -2000, -9, -1, 0, 1, 7, 2000, 100000, 100001, math.MaxInt32}
	p.ints = []int{-1, 0, 1, 2, 8, 10, 16, 36, 62, 63, 64, 127, 128, 200, 1000}
	p.uints = []uint{0, 1, 63, 64, 65, 127, 128, 129, 200}
	p.i64 = []int64{math.MinInt64, math.MinInt64 + 1, -1 << 53, -10, -1, 0, 1, 7, 1 << 31, 1 << 53, math.MaxInt64 - 1, math.MaxInt64}
	p.u64 = []uint64{0, 1, 1 << 32, 1 << 63, math.MaxUint64}
	for b := 0; b < 256; b++ {
		p.bytes_ = append(p.bytes_, byte(b))
	}
	for r := rune(32); r < 127; r++ {
		p.runes = append(p.runes, r)
	}
	p.runes = append(p.runes, 'é', '世', 0, -1, 0x10FFFF)
	p.iface = []interface{}{nil, "12.5", []byte("-7e3"), int64(-42), float64(2.5), math.NaN(), math.Inf(-1), true, 17, struct{}{}, "bogus", []byte(nil), int64(math.MinInt64), apd.New(1, 0)}
	for c := 0; c < 4096; c++ {
		p.conds = append(p.conds, apd.Condition(c))
	}
	p.round = append(append([]apd.Rounder{}, Modes8...), "", "bogus")
	p.f64 = []float64{0, math.Copysign(0, -1), 1, -2.5, 0.1, 5e-324, math.MaxFloat64, -math.MaxFloat64, math.Inf(1), math.Inf(-1), math.NaN(), 1e23, 9007199254740993}
	p.words = [][]big.Word{nil, {}, {0}, {1}, {0, 0, 0}, {^big.Word(0), ^big.Word(0)}, {1, 2, 3}}
	p.bools = []bool{false, true}
	return p
}

var (
	tDec   = reflect.TypeOf((*apd.Decimal)(nil))
	tCtx   = reflect.TypeOf((*apd.Context)(nil))
	tBig   = reflect.TypeOf((*apd.BigInt)(nil))
	tMBig  = reflect.TypeOf((*big.Int)(nil))
	tErrD  = reflect.TypeOf((*apd.ErrDecimal)(nil))
	tNullD = reflect.TypeOf((*apd.NullDecimal)(nil))
	tRand  = reflect.TypeOf((*rand.Rand)(nil))
	tErr   = reflect.TypeOf((*error)(nil)).Elem()
	tIface = reflect.TypeOf((*interface{})(nil)).Elem()
	tState = reflect.TypeOf((*fmt.State)(nil)).Elem()
	tScanS = reflect.TypeOf((*fmt.ScanState)(nil)).Elem()
)

// poolSize returns how many values the pool has for type t (0 = no generator).
func (p *c04Pools) poolSize(t reflect.Type) int {
	switch t {
	case tDec:
		return len(p.dec) + 1 // + nil for Modf's optional outputs is handled separately
	case tCtx:
		return len(p.ctx)
	case tBig:
		return len(p.bigs)
	case tMBig:
		return len(c16Alphabet)
	case tRand:
		return 1
	case tIface:
		return len(p.iface)
	}
	switch t.Kind() {
	case reflect.String:
		if t == reflect.TypeOf(apd.Rounder("")) {
			return len(p.round)
		}
		return len(p.str)
	case reflect.Int32:
		if t == reflect.TypeOf(rune(0)) {
			return len(p.i32)
		}
		return len(p.i32)
	case reflect.Int:
		return len(p.ints)
	case reflect.Uint:
		return len(p.uints)
	case reflect.Int64:
		return len(p.i64)
	case reflect.Uint64:
		return len(p.u64)
	case reflect.Uint8:
		if t == reflect.TypeOf(byte(0)) {
			return len(p.bytes_)
		}
	case reflect.Uint32:
		if t == reflect.TypeOf(apd.Condition(0)) {
			return len(p.conds)
		}
		return len(p.u64)
	case reflect.Int8:
		return 4 // Form 0..3
	case reflect.Bool:
		return 2
	case reflect.Float64:
		return len(p.f64)
	case reflect.Slice:
		if t.Elem().Kind() == reflect.Uint8 {
			return len(p.str)
		}
		if t.Elem() == reflect.TypeOf(big.Word(0)) {
			return len(p.words)
		}
	}
	return 0
}

// gen builds the i-th value of the pool for type t (fresh objects every time) and its description.
func (p *c04Pools) gen(t reflect.Type, i int) (reflect.Value, string) {
	switch t {
	case tDec:
		if i == len(p.dec) {
			return reflect.Zero(tDec), "nil"
		}
		j := p.dec[i]
		return reflect.ValueOf(j.Build()), j.Val().String()
	case tCtx:
		c := p.ctx[i]
		return reflect.ValueOf(&c), fmt.Sprintf("%+v", c)
	case tBig:
		z, _ := mkBig(p.bigs[i])
		return reflect.ValueOf(z), shortBig(c16Alphabet[p.bigs[i].Idx])
	case tMBig:
		return reflect.ValueOf(new(big.Int).Set(c16Alphabet[i])), shortBig(c16Alphabet[i])
	case tRand:
		return reflect.ValueOf(rand.New(rand.NewSource(7))), "rand(7)"
	case tIface:
		v := p.iface[i]
		if v == nil {
			return reflect.Zero(tIface), "nil"
		}
		return reflect.ValueOf(v), fmt.Sprintf("%T(%v)", v, v)
	}
	switch t.Kind() {
	case reflect.String:
		if t == reflect.TypeOf(apd.Rounder("")) {
			return reflect.ValueOf(p.round[i]), string(p.round[i])
		}
		return reflect.ValueOf(p.str[i]).Convert(t), fmt.Sprintf("%q", clip(p.str[i]))
	case reflect.Int32:
		return reflect.ValueOf(p.i32[i]).Convert(t), fmt.Sprint(p.i32[i])
	case reflect.Int:
		return reflect.ValueOf(p.ints[i]).Convert(t), fmt.Sprint(p.ints[i])
	case reflect.Uint:
		return reflect.ValueOf(p.uints[i]).Convert(t), fmt.Sprint(p.uints[i])
	case reflect.Int64:
		return reflect.ValueOf(p.i64[i]).Convert(t), fmt.Sprint(p.i64[i])
	case reflect.Uint64:
		return reflect.ValueOf(p.u64[i]).Convert(t), fmt.Sprint(p.u64[i])
	case reflect.Uint8:
		return reflect.ValueOf(p.bytes_[i]).Convert(t), fmt.Sprintf("byte(%d)", p.bytes_[i])
	case reflect.Uint32:
		if t == reflect.TypeOf(apd.Condition(0)) {
			return reflect.ValueOf(p.conds[i]), fmt.Sprintf("Condition(%d)", p.conds[i])
		}
		return reflect.ValueOf(uint32(p.u64[i])).Convert(t), fmt.Sprint(uint32(p.u64[i]))
	case reflect.Int8:
		return reflect.ValueOf(int8(i)).Convert(t), fmt.Sprint(i)
	case reflect.Bool:
		return reflect.ValueOf(i == 1), fmt.Sprint(i == 1)
	case reflect.Float64:
		return reflect.ValueOf(p.f64[i]), fmt.Sprint(p.f64[i])
	case reflect.Slice:
		if t.Elem().Kind() == reflect.Uint8 {
			return reflect.ValueOf([]byte(p.str[i])), fmt.Sprintf("[]byte(%q)", clip(p.str[i]))
		}
		return reflect.ValueOf(append([]big.Word{}, p.words[i]...)), fmt.Sprint(p.words[i])
	}
	panic("no generator for " + t.String())
}

// receivers
type c04Recv struct {
	name string
	typ  reflect.Type
	n    int
	gen  func(i int) (reflect.Value, string)
}

func (p *c04Pools) receivers() []c04Recv {
	return []c04Recv{
		{"Decimal", tDec, len(p.dec), func(i int) (reflect.Value, string) { return p.gen(tDec, i) }},
		{"Context", tCtx, len(p.ctx), func(i int) (reflect.Value, string) { return p.gen(tCtx, i) }},
		{"BigInt", tBig, len(p.bigs), func(i int) (reflect.Value, string) { return p.gen(tBig, i) }},
		{"Condition", reflect.TypeOf(apd.Condition(0)), 4096, func(i int) (reflect.Value, string) {
			return reflect.ValueOf(apd.Condition(i)), fmt.Sprintf("Condition(%d)", i)
		}},
		{"Form", reflect.TypeOf(apd.Form(0)), 4, func(i int) (reflect.Value, string) { return reflect.ValueOf(apd.Form(i)), fmt.Sprint(i) }},
		{"Rounder", reflect.TypeOf(apd.Rounder("")), len(p.round), func(i int) (reflect.Value, string) { return reflect.ValueOf(p.round[i]), string(p.round[i]) }},
		{"ErrDecimal", tErrD, len(p.ctx) * 2, func(i int) (reflect.Value, string) {
			c := p.ctx[i/2]
			ed := apd.MakeErrDecimal(&c)
			s := "fresh"
			if i%2 == 1 {
				// an ErrDecimal that has already failed
				ed.Flags = apd.SystemOverflow
				ed.Err()
				s = "failed"
			}
			return reflect.ValueOf(&ed), fmt.Sprintf("ErrDecimal{%s,%+v}", s, c)
		}},
		{"NullDecimal", tNullD, 2, func(i int) (reflect.Value, string) {
			n := &apd.NullDecimal{Valid: i == 1}
			n.Decimal.SetFinite(15, -1)
			return reflect.ValueOf(n), fmt.Sprintf("NullDecimal{valid=%v}", i == 1)
		}},
	}
}

// exportedFromAST lists the exported functions and methods of the tree under test.
func exportedFromAST(dir string) (map[string]bool, error) {
	out := map[string]bool{}
	files, _ := filepath.Glob(filepath.Join(dir, "*.go"))
	for _, f := range files {
		if strings.HasSuffix(f, "_test.go") {
			continue
		}
		fset := token.NewFileSet()
		af, err := parser.ParseFile(fset, f, nil, 0)
		if err != nil {
			return nil, err
		}
		for _, d := range af.Decls {
			fd, ok := d.(*ast.FuncDecl)
			if !ok || !fd.Name.IsExported() {
				continue
			}
			name := fd.Name.Name
			if fd.Recv != nil && len(fd.Recv.List) == 1 {
				t := fd.Recv.List[0].Type
				if st, ok := t.(*ast.StarExpr); ok {
					t = st.X
				}
				id, ok := t.(*ast.Ident)
				if !ok || !id.IsExported() {
					continue
				}
				name = id.Name + "." + name
			}
			out[name] = true
		}
	}
	return out, nil
}

// validDecimal checks structural validity: valid form and non-negative coefficient for every result;
// the package exponent limits only for values produced from text (the property's second sentence).
func validDecimal(d *apd.Decimal, fromText bool) string {
	if d.Form < apd.Finite || d.Form > apd.NaN {
		return fmt.Sprintf("invalid Form %d", d.Form)
	}
	if d.Coeff.Sign() < 0 {
		return "negative coefficient " + d.Coeff.String()
	}
	if d.Form == apd.Finite && fromText {
		if d.Exponent > 100000 || d.Exponent < -100000 {
			return fmt.Sprintf("exponent %d outside the package limits", d.Exponent)
		}
		if adj := int64(d.Exponent) + int64(ref.NDig(d.Coeff.MathBigInt())) - 1; adj > 100000 || adj < -100000 {
			return fmt.Sprintf("adjusted exponent %d outside the package limits", adj)
		}
	}
	return ""
}

// methods whose Decimal outputs carry caller-provided fields verbatim (validity is the caller's business)
var c04FromText = map[string]bool{"Decimal.SetString": true, "Context.SetString": true, "Context.NewFromString": true, "NewFromString": true, "Decimal.UnmarshalText": true, "Decimal.Scan": true, "NullDecimal.Scan": true}

var c04NoValidity = map[string]bool{"Decimal.SetFinite": true, "Decimal.Compose": true, "New": true, "NewWithBigInt": true, "Decimal.Set": true, "Decimal.Neg": true, "Decimal.Abs": true,
	"Decimal.Reduce": true, "Decimal.Modf": true, "Rounder.Round": true}

// methods driven through other entry points (fmt machinery) rather than directly
var c04Indirect = map[string]string{"Decimal.Format": "fmt.Sprintf", "BigInt.Format": "fmt.Sprintf", "BigInt.Scan": "fmt.Sscan"}

// c04Restrict limits one BigInt argument of a method to small values: math/big itself needs astronomically
// long for x**y with a huge y and no modulus, and documents ModSqrt only for prime moduli.
var c04Restrict = map[string]map[int][]int64{
	"BigInt.Exp":     {1: {-1, 0, 1, 2, 5, 7, 10}},
	"BigInt.ModSqrt": {1: {2, 5, 7}},
}

func (p *c04Pools) restrictIdx(full string, k int) []int {
	r, ok := c04Restrict[full]
	if !ok {
		return nil
	}
	vals, ok := r[k]
	if !ok {
		return nil
	}
	var out []int
	for i, a := range p.bigs {
		for _, v := range vals {
			if c16Alphabet[a.Idx].IsInt64() && c16Alphabet[a.Idx].Int64() == v {
				out = append(out, i)
			}
		}
	}
	return out
}

// Binomial and MulRange are exponential in their arguments in math/big itself; only small values are inputs a caller can use.
var c04SmallInts = []int64{-3, -1, 0, 1, 2, 5, 20, 64, 200}

type c04Driver struct {
	p    *c04Pools
	e    *core.Env
	fuel int64
}

// call invokes fn with args under the totality guard. It returns the results, a panic text and whether fuel ran out.
func (dr *c04Driver) call(fn reflect.Value, args []reflect.Value) (res []reflect.Value, pan string, hung bool) {
	dr.fuel = 0
	apd.VerifFuelHook = func() {
		dr.fuel++
		if dr.fuel > c04Fuel {
			panic(fuelExhausted{})
		}
	}
	defer func() {
		apd.VerifFuelHook = nil
		if r := recover(); r != nil {
			if _, ok := r.(fuelExhausted); ok {
				hung = true
				return
			}
			pan = fmt.Sprint(r)
		}
	}()
	res = fn.Call(args)
	return
}

func lastErr(res []reflect.Value) error {
	if len(res) == 0 {
		return nil
	}
	l := res[len(res)-1]
	if l.Type() == tErr && !l.IsNil() {
		return l.Interface().(error)
	}
	return nil
}

// mirrorPanics reports whether the math/big.Int method of the same name panics on the same values.
func mirrorPanics(method string, recvIdx c16Arg, argDescs []reflect.Value) bool {
	m := reflect.ValueOf(new(big.Int).Set(c16Alphabet[recvIdx.Idx])).MethodByName(method)
	if !m.IsValid() {
		return false
	}
	mt := m.Type()
	if mt.NumIn() != len(argDescs) {
		return false
	}
	args := make([]reflect.Value, len(argDescs))
	for i, a := range argDescs {
		if a.Type() == tBig {
			var b *big.Int
			if !a.IsNil() {
				b = a.Interface().(*apd.BigInt).MathBigInt()
			}
			args[i] = reflect.ValueOf(b)
		} else {
			args[i] = a
		}
		if !args[i].Type().AssignableTo(mt.In(i)) {
			return false
		}
	}
	panicked := false
	func() {
		defer func() {
			if r := recover(); r != nil {
				panicked = true
			}
		}()
		m.Call(args)
	}()
	return panicked
}

func c04Run(e *core.Env) {
	if err := c16LayoutOK(); err != nil {
		panic(err)
	}
	p := c04MakePools(e.Tier)
	dr := &c04Driver{p: p, e: e}
	src := os.Getenv("VERIF_SRC")
	if src == "" {
		src = "/repo"
	}
	exported, err := exportedFromAST(src)
	if err != nil {
		panic(err)
	}
	driven := map[string]bool{}
	maxFuel := int64(0)
	budget := 40000 // argument tuples per (method, receiver-stride) in the quick tier
	if e.Thorough() {
		budget = 400000
	}
	report := func(cls string, c c04Case, msg string) {
		e.Fail(cls, "call", c, fmt.Sprintf("%s.%s(%s) on %s: %s", c.Recv, c.Method, strings.Join(c.Args, ", "), c.Recv, msg))
	}
	idx := int64(0)
	nhang := 0
	for _, rc := range p.receivers() {
		var ptrT reflect.Type = rc.typ
		for mi := 0; mi < ptrT.NumMethod(); mi++ {
			m := ptrT.Method(mi)
			full := rc.name + "." + m.Name
			driven[full] = true
			if _, ind := c04Indirect[full]; ind {
				continue
			}
			mt := m.Func.Type()
			nin := mt.NumIn() - 1
			sizes := make([]int, nin)
			total := int64(1)
			ok := true
			small := full == "BigInt.Binomial" || full == "BigInt.MulRange"
			for k := 0; k < nin; k++ {
				it := mt.In(k + 1)
				if small {
					sizes[k] = len(c04SmallInts)
					total *= int64(sizes[k])
					continue
				}
				if it == tState || it == tScanS {
					ok = false
					break
				}
				sizes[k] = p.poolSize(it)
				if ri := p.restrictIdx(full, k); ri != nil {
					sizes[k] = len(ri)
				}
				if it == tDec && !(full == "Decimal.Modf") {
					sizes[k]-- // nil Decimal arguments are only legal for Modf
				}
				if sizes[k] == 0 {
					panic("C04 harness: no generator for parameter type " + it.String() + " of " + full)
				}
				total *= int64(sizes[k])
			}
			if !ok {
				panic("C04 harness: " + full + " takes a fmt.State/ScanState but is not listed as indirectly driven")
			}
			// enumerate receivers x argument tuples; when the full product exceeds the budget a fixed stride
			// sub-lattice of it is enumerated (deterministic; stated in the evidence)
			stride := int64(1)
			all := total * int64(rc.n)
			if all > int64(budget) {
				stride = all/int64(budget) + 1
				if stride%2 == 0 {
					stride++
				}
				e.Note(fmt.Sprintf("strided:%s:1/%d of %d", full, stride, all))
			}
			for lin := int64(0); lin < all; lin += stride {
				idx++
				if !e.Mine(idx) {
					continue
				}
				if idx&0x3ff == 0 && e.Expired() {
					e.Cap("soft deadline")
					return
				}
				ri := int(lin % int64(rc.n))
				rest := lin / int64(rc.n)
				recv, rdesc := rc.gen(ri)
				args := []reflect.Value{recv}
				descs := []string{}
				ais := []int{}
				for k := 0; k < nin; k++ {
					ai := int(rest % int64(sizes[k]))
					rest /= int64(sizes[k])
					if ri := p.restrictIdx(full, k); ri != nil {
						ai = ri[ai]
					}
					v, d := p.gen(mt.In(k+1), ai)
					if small {
						v, d = reflect.ValueOf(c04SmallInts[ai]), fmt.Sprint(c04SmallInts[ai])
					}
					args = append(args, v)
					descs = append(descs, d)
					ais = append(ais, ai)
				}
				cs := c04Case{Recv: rc.name + "(" + rdesc + ")", Method: m.Name, Args: descs, RecvIx: ri, ArgIx: ais}
				e.Running(func() string { return fmt.Sprintf("%s.%s(%s)", cs.Recv, cs.Method, strings.Join(cs.Args, ", ")) })
				res, pan, hung := dr.call(m.Func, args)
				e.TransOnly(1)
				if dr.fuel > maxFuel {
					maxFuel = dr.fuel
				}
				switch {
				case hung:
					e.Outcome(full+"/hang", false)
					report("hang", cs, fmt.Sprintf("did not return within %d loop iterations", c04Fuel))
					nhang++
					if nhang >= 25 {
						// every further hang costs seconds; the verdict is already a violation
						e.Cap("stopped after 25 non-terminating calls in this worker")
						return
					}
					continue
				case pan != "":
					if rc.name == "BigInt" && mirrorPanics(m.Name, p.bigs[ri], args[1:]) {
						e.Outcome(full+"/panic-like-math/big", false)
						continue
					}
					e.Outcome(full+"/panic", false)
					report("panic", cs, "panic: "+pan)
					continue
				}
				if err := lastErr(res); err != nil {
					e.Outcome(full+"/error", false)
					continue
				}
				e.Outcome(full+"/ok", true)
				if !c04NoValidity[full] {
					for _, a := range append(args, res...) {
						if a.Type() == tDec && !a.IsNil() {
							if msg := validDecimal(a.Interface().(*apd.Decimal), c04FromText[full]); msg != "" {
								report("invalid-result", cs, "reports success but leaves an ill-formed Decimal: "+msg)
								break
							}
						}
					}
				}
				if e.WantSample() {
					e.Sample(fmt.Sprintf("%s.%s(%s)", cs.Recv, cs.Method, strings.Join(cs.Args, ", ")))
				}
			}
			e.State()
		}
	}
	// very high precisions (beyond anything the pools can afford for every method): the iterated functions at
	// Precision 330, 400 and 1000 on arguments below the smallest float64, next to 1 and far outside its range
	{
		hp := c04HighPrec()
		for hi := range hp {
			idx++
			if !e.Mine(idx) {
				continue
			}
			a := hp[hi]
			e.Running(func() string { return a.String() })
			fn := reflect.ValueOf(func() { runHP(a) })
			_, pan, hung := dr.call(fn, nil)
			e.TransOnly(1)
			e.State()
			switch {
			case hung:
				e.Outcome("hiprec/"+a.Op+"/hang", false)
				e.Fail("hang", "hiprec", a, a.String()+fmt.Sprintf(": did not return within %d loop iterations", c04Fuel))
			case pan != "":
				e.Outcome("hiprec/"+a.Op+"/panic", false)
				e.Fail("panic", "hiprec", a, a.String()+": panic: "+pan)
			default:
				e.Outcome("hiprec/"+a.Op+"/ok", false)
			}
		}
	}
	// package-level functions
	funcs := map[string]interface{}{"New": apd.New, "NewBigInt": apd.NewBigInt, "NewFromString": apd.NewFromString, "NewWithBigInt": apd.NewWithBigInt, "NumDigits": apd.NumDigits, "MakeErrDecimal": apd.MakeErrDecimal}
	var fnames []string
	for k := range funcs {
		fnames = append(fnames, k)
	}
	sort.Strings(fnames)
	for _, name := range fnames {
		driven[name] = true
		fv := reflect.ValueOf(funcs[name])
		ft := fv.Type()
		sizes := make([]int, ft.NumIn())
		total := int64(1)
		for k := range sizes {
			sizes[k] = p.poolSize(ft.In(k))
			if ft.In(k) == tDec {
				sizes[k]--
			}
			if sizes[k] == 0 {
				panic("C04 harness: no generator for " + ft.In(k).String())
			}
			total *= int64(sizes[k])
		}
		for lin := int64(0); lin < total; lin++ {
			idx++
			if !e.Mine(idx) {
				continue
			}
			rest := lin
			var args []reflect.Value
			var descs []string
			var ais []int
			for k := range sizes {
				ai := int(rest % int64(sizes[k]))
				rest /= int64(sizes[k])
				v, d := p.gen(ft.In(k), ai)
				args = append(args, v)
				descs = append(descs, d)
				ais = append(ais, ai)
			}
			cs := c04Case{Recv: "package", Method: name, Args: descs, ArgIx: ais}
			res, pan, hung := dr.call(fv, args)
			e.TransOnly(1)
			if hung || pan != "" {
				report("panic", cs, "panic/hang: "+pan)
				continue
			}
			if lastErr(res) == nil && !c04NoValidity[name] {
				for _, a := range res {
					if a.Type() == tDec && !a.IsNil() {
						if msg := validDecimal(a.Interface().(*apd.Decimal), c04FromText[name]); msg != "" {
							report("invalid-result", cs, "reports success but returns an ill-formed Decimal: "+msg)
						}
					}
				}
			}
			e.Outcome(name, false)
		}
		e.State()
	}
	// fmt-driven entry points: Decimal.Format / BigInt.Format under every printable verb x flag subset x widths; BigInt.Scan
	for di := 0; di < len(p.dec); di += 7 {
		idx++
		if !e.Mine(idx) {
			continue
		}
		d := p.dec[di].Build()
		if d.Form == apd.Finite && (d.Exponent > 3000 || d.Exponent < -3000) {
			continue
		}
		for _, vb := range p.runes {
			if vb <= 0 || vb > 0x10FFFF || vb == '%' {
				continue
			}
			for fs := 0; fs < 32; fs++ {
				flags := ""
				for b, ch := range "+ -0#" {
					if fs&(1<<uint(b)) != 0 {
						flags += string(ch)
					}
				}
				for _, w := range []string{"", "0", "1", "12"} {
					f := "%" + flags + w + string(vb)
					s, pan, hung := func() (s string, pan string, hung bool) {
						dr.fuel = 0
						defer func() {
							if r := recover(); r != nil {
								pan = fmt.Sprint(r)
							}
						}()
						return fmt.Sprintf(f, d), "", false
					}()
					e.TransOnly(1)
					if hung || pan != "" || strings.Contains(s, "PANIC=") {
						report("panic", c04Case{Recv: "Decimal(" + p.dec[di].Val().String() + ")", Method: "Format", Args: []string{f}, RecvIx: di}, "Format panics: "+pan+s)
					}
				}
			}
		}
		e.Outcome("Decimal.Format", false)
	}
	for bi := range p.bigs {
		idx++
		if !e.Mine(idx) {
			continue
		}
		z, _ := mkBig(p.bigs[bi])
		for _, f := range []string{"%d", "%x", "%s", "%v", "%+d", "%#x", "%012d", "%q", "%c", "%U", "%e"} {
			if s := fmt.Sprintf(f, z); strings.Contains(s, "PANIC=") {
				report("panic", c04Case{Recv: "BigInt", Method: "Format", Args: []string{f}, RecvIx: bi}, s)
			}
			e.TransOnly(1)
		}
		for _, in := range []string{"17", "-0x1f", "zz", "", "99999999999999999999999999999999999999999999"} {
			func() {
				defer func() {
					if r := recover(); r != nil {
						report("panic", c04Case{Recv: "BigInt", Method: "Scan", Args: []string{in}, RecvIx: bi}, fmt.Sprint(r))
					}
				}()
				fmt.Sscan(in, z)
			}()
			e.TransOnly(1)
		}
		e.Outcome("BigInt.Format/Scan", false)
	}
	// parsers: a successfully parsed Decimal is always well-formed (C14's string space, shorter)
	n := len(c14Sigma)
	total := int64(1)
	for l := 0; l <= 4; l++ {
		if l > 0 {
			total *= int64(n)
		}
		for k := int64(0); k < total; k++ {
			idx++
			if !e.Mine(idx) {
				continue
			}
			var sb strings.Builder
			r := k
			for j := 0; j < l; j++ {
				sb.WriteString(c14Sigma[r%int64(n)])
				r /= int64(n)
			}
			s := sb.String()
			d, _, err := apd.NewFromString(s)
			e.TransOnly(1)
			if err == nil {
				if msg := validDecimal(d, true); msg != "" {
					report("invalid-result", c04Case{Recv: "package", Method: "NewFromString", Args: []string{fmt.Sprintf("%q", s)}}, "parsed successfully into an ill-formed Decimal: "+msg)
				}
			}
		}
	}
	e.Outcome("parsers/token-strings", false)
	// completeness: every exported function/method of the AST must have been driven
	if e.Shard == 0 {
		var missing []string
		for name := range exported {
			if !driven[name] {
				missing = append(missing, name)
			}
		}
		sort.Strings(missing)
		if len(missing) > 0 {
			panic("C04 harness: exported entry points without a driver: " + strings.Join(missing, ", "))
		}
		if e.R.Extra == nil {
			e.R.Extra = map[string]interface{}{}
		}
		e.R.Extra["exported_entry_points_in_ast"] = len(exported)
		e.R.Extra["entry_points_driven"] = len(driven)
	}
	if e.R.Extra == nil {
		e.R.Extra = map[string]interface{}{}
	}
	e.R.Extra["max_loop_iterations_in_one_call"] = maxFuel
}

// c04HighPrec lists the high-precision calls.
func c04HighPrec() []ArithCase {
	var out []ArithCase
	xs := []DecJ{{Coef: "1", Exp: -350}, {Coef: "1", Exp: -350, Neg: true}, {Coef: "123", Exp: -900}, {Coef: "5", Exp: -324}, {Coef: "1", Exp: -320}, {Coef: "2"}, {Coef: "5", Exp: -1},
		{Coef: "1", Exp: 350}, {Coef: "1" + strings.Repeat("0", 398) + "1", Exp: -399}, {Coef: strings.Repeat("9", 400), Exp: -400}}
	half := DecJ{Coef: "5", Exp: -1}
	three := DecJ{Coef: "3"}
	for _, pr := range []uint32{330, 400, 1000} {
		cj := CtxJ{P: pr, Emin: -100000, Emax: 100000, Mode: "half_even"}
		for _, x := range xs {
			for _, op := range []string{"Exp", "Ln", "Log10", "Sqrt", "Cbrt"} {
				out = append(out, ArithCase{Op: op, X: x, Ctx: cj})
			}
			h, t := half, three
			out = append(out, ArithCase{Op: "Pow", X: x, Y: &h, Ctx: cj}, ArithCase{Op: "Quo", X: x, Y: &t, Ctx: cj})
		}
	}
	return out
}

// runHP executes one high-precision call (panics and fuel exhaustion propagate to the driver).
func runHP(a ArithCase) {
	cc := a.Ctx.Ctx()
	c := cc.C
	var d apd.Decimal
	x := a.X.Build()
	switch a.Op {
	case "Exp":
		c.Exp(&d, x)
	case "Ln":
		c.Ln(&d, x)
	case "Log10":
		c.Log10(&d, x)
	case "Sqrt":
		c.Sqrt(&d, x)
	case "Cbrt":
		c.Cbrt(&d, x)
	case "Pow":
		c.Pow(&d, x, a.Y.Build())
	case "Quo":
		c.Quo(&d, x, a.Y.Build())
	}
}

func c04Replay(kind string, raw json.RawMessage) string {
	if err := c16LayoutOK(); err != nil {
		return err.Error()
	}
	if kind == "hiprec" {
		a, err := decodeArith(raw)
		if err != nil {
			return "bad replay file"
		}
		dr := &c04Driver{}
		_, pan, hung := dr.call(reflect.ValueOf(func() { runHP(a) }), nil)
		if hung {
			return a.String() + fmt.Sprintf(": did not return within %d loop iterations", c04Fuel)
		}
		if pan != "" {
			return a.String() + ": panic: " + pan
		}
		return ""
	}
	var c c04Case
	if err := json.Unmarshal(raw, &c); err != nil {
		return "bad replay file"
	}
	for _, tier := range []string{"quick", "thorough"} {
		p := c04MakePools(tier)
		dr := &c04Driver{p: p}
		for _, rc := range p.receivers() {
			if !strings.HasPrefix(c.Recv, rc.name+"(") {
				continue
			}
			m, ok := rc.typ.MethodByName(c.Method)
			if !ok || c.RecvIx >= rc.n {
				continue
			}
			recv, rdesc := rc.gen(c.RecvIx)
			if rc.name+"("+rdesc+")" != c.Recv {
				continue
			}
			args := []reflect.Value{recv}
			mt := m.Func.Type()
			bad := false
			small := c.Method == "Binomial" || c.Method == "MulRange"
			for k := 0; k < mt.NumIn()-1 && k < len(c.ArgIx); k++ {
				if small {
					if c.ArgIx[k] >= len(c04SmallInts) {
						bad = true
						break
					}
					args = append(args, reflect.ValueOf(c04SmallInts[c.ArgIx[k]]))
					continue
				}
				if c.ArgIx[k] >= p.poolSize(mt.In(k+1)) {
					bad = true
					break
				}
				v, _ := p.gen(mt.In(k+1), c.ArgIx[k])
				args = append(args, v)
			}
			if bad || len(args) != mt.NumIn() {
				continue
			}
			res, pan, hung := dr.call(m.Func, args)
			if hung {
				return "does not return (loop fuel exhausted)"
			}
			if pan != "" {
				if rc.name == "BigInt" && mirrorPanics(c.Method, p.bigs[c.RecvIx], args[1:]) {
					return ""
				}
				return "panic: " + pan
			}
			if lastErr(res) == nil && !c04NoValidity[rc.name+"."+c.Method] {
				for _, a := range append(args, res...) {
					if a.Type() == tDec && !a.IsNil() {
						if msg := validDecimal(a.Interface().(*apd.Decimal), c04FromText[rc.name+"."+c.Method]); msg != "" {
							return "ill-formed result: " + msg
						}
					}
				}
			}
			return ""
		}
	}
	if c.Method == "NewFromString" && len(c.Args) == 1 {
		var s string
		fmt.Sscanf(c.Args[0], "%q", &s)
		d, _, err := apd.NewFromString(s)
		if err == nil {
			return validDecimal(d, true)
		}
		return ""
	}
	return "case not reproducible from pool indices (re-run ./run.sh C04)"
}

func init() {
	core.Register(&core.Prop{
		ID:    "C04",
		Title: "Operations are total: no panic and no hang on any well-formed input",
		Rule:  "every exported function and method of the package (list taken from the AST of the tree under test; a missing driver is a harness error) is called by reflection with receivers and arguments generated per parameter type from finite pools of well-formed values (decimals incl. specials, signed zeros, package limits, heap-backed coefficients; contexts incl. precision 0 and three trap sets; all 256 format bytes; boundary integers; C14 strings and byte slices; scan sources); every call runs under a recover guard and a loop-fuel budget in the instrumented build; BigInt panics are accepted only when math/big panics on the same values; a call that reports success must leave well-formed Decimals; non-trivial = the call returned an error, panicked like math/big, or hit a special path; plus Exp, Ln, Log10, Sqrt, Cbrt, Pow(x, 0.5), Quo(x, 3) at Precision 330, 400 and 1000 on ten arguments (below the smallest float64, next to 1, 400 digits, 1E+350)",
		Bounds: func(tier string) string {
			p := c04MakePools(tier)
			return fmt.Sprintf("pools: %d decimals, %d contexts, %d big integers, %d strings, 13 exponents, 256 bytes, 4096 conditions; per method the receiver x argument product is enumerated completely when <= %d tuples, otherwise a fixed-stride sub-lattice of it (strides listed under notes); fmt verbs: all printable runes x 32 flag subsets x 4 widths; parsers: all strings of <= 4 tokens; loop fuel %d iterations per call", len(p.dec), len(p.ctx), len(p.bigs), len(p.str), map[bool]int{false: 40000, true: 400000}[tier == "thorough"], c04Fuel)
		},
		Run:    c04Run,
		Replay: c04Replay,
		Shadow: true,
		Assumptions: []string{
			"well-formed inputs only: forms 0..3, non-negative coefficients, exponents within +-100000, Condition values 0..4095; setters that copy caller-provided fields (SetFinite, Compose, New, NewWithBigInt) are not held to the exponent limits",
			"hangs are detected by a loop-iteration budget inside package apd (loops inside math/big are not counted) plus the worker watchdog",
		},
	})
}
