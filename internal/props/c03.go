package props

import (
	"encoding/json"
	"fmt"
	"reflect"
	"sort"
	"strings"
	"time"

	"github.com/cockroachdb/apd/v3"

	"verif/internal/core"
	"verif/internal/ref"
)

// C03: traps turn raised conditions into errors and never change or hide results.

var c03Single = map[string]bool{"Add": true, "Sub": true, "Mul": true, "Quo": true, "QuoInteger": true, "Rem": true, "Abs": true, "Neg": true, "Round": true, "Quantize": true,
	"RoundToIntegralValue": true, "RoundToIntegralExact": true, "Reduce": true, "Cmp": true}

const sysFlags = apd.SystemOverflow | apd.SystemUnderflow

type trapCase struct {
	A     ArithCase `json:"case"`
	Traps uint32    `json:"traps"`
}

// c03Lattice runs one case under the empty trap set and under every trap set of sets.
func c03Lattice(op string, x Operand, y *Operand, qexp int32, cc CtxCase, sets []apd.Condition) (cls string, nexec int64, failT apd.Condition, msg string) {
	var yd *apd.Decimal
	if y != nil {
		yd = y.D
	}
	exec := func(t apd.Condition) (runOut, apd.Condition) {
		c := cc.C
		c.Traps = t
		var d apd.Decimal
		res, err, pan := callOp(op, &c, &d, x.D, yd, qexp)
		o := runOut{obs: obsStr(&d), res: res, pan: pan}
		if err != nil {
			o.err = err.Error()
		}
		return o, res
	}
	base, f0 := exec(0)
	nexec = 1
	cls = op + "/" + ref.FlagNames(int(f0))
	if base.pan != "" {
		return cls, nexec, 0, "panic with empty trap set: " + base.pan
	}
	if base.err != "" {
		cls = op + "/error-untrapped"
		// under the empty trap set an error of a single-rounding operation can only be a system limit or a
		// documented misuse (precision 0); composite functions run internal steps in contexts of their own
		// and the property does not forbid their errors
		if c03Single[op] && f0&sysFlags == 0 && !strings.Contains(base.err, "exponent out of range") && !strings.Contains(base.err, "0 Precision") && !strings.Contains(base.err, "too many iterations") && !strings.Contains(base.err, "did not converge") {
			return cls, nexec, 0, fmt.Sprintf("error %q with an empty trap set and no system condition (flags %s)", base.err, ref.FlagNames(int(f0)))
		}
	}
	single := c03Single[op]
	for _, t := range sets {
		got, f := exec(t)
		nexec++
		if got.pan != "" {
			return cls, nexec, t, "panic: " + got.pan
		}
		mustErr := f0&(t|sysFlags) != 0 || base.err != ""
		if mustErr && got.err == "" {
			return cls, nexec, t, fmt.Sprintf("untrapped run raises %s, trap set %s, but the error is nil (result %s [%s])", ref.FlagNames(int(f0)), ref.FlagNames(int(t)), got.obs, ref.FlagNames(int(f)))
		}
		if got.err == "" {
			if got.obs != base.obs || f != f0 {
				return cls, nexec, t, fmt.Sprintf("no error under trap set %s but result %s [%s] differs from the untrapped %s [%s]", ref.FlagNames(int(t)), got.obs, ref.FlagNames(int(f)), base.obs, ref.FlagNames(int(f0)))
			}
			continue
		}
		if single {
			if !mustErr {
				return cls, nexec, t, fmt.Sprintf("error %q although no trapped condition was raised (flags %s, traps %s)", got.err, ref.FlagNames(int(f0)), ref.FlagNames(int(t)))
			}
			if base.err == "" && (got.obs != base.obs || f != f0) {
				return cls, nexec, t, fmt.Sprintf("trapped condition: result %s [%s] not delivered alongside the error (untrapped: %s [%s])", got.obs, ref.FlagNames(int(f)), base.obs, ref.FlagNames(int(f0)))
			}
		}
	}
	return cls, nexec, 0, ""
}

func trapSets(all bool) []apd.Condition {
	var out []apd.Condition
	if all {
		for t := 1; t < 4096; t++ {
			out = append(out, apd.Condition(t))
		}
		return out
	}
	for i := 0; i < 12; i++ {
		out = append(out, 1<<uint(i))
	}
	for i := 0; i < 12; i++ {
		for j := i + 1; j < 12; j++ {
			out = append(out, 1<<uint(i)|1<<uint(j))
		}
	}
	out = append(out, 4095, apd.DefaultTraps)
	return out
}

func c03Operands() []Operand {
	out := append([]Operand{}, c08Alphabet()...)
	out = append(out, DenseSel(2, 2, func(c int64) bool { return c == 1 || c == 3 || c == 15 || c == 99 })...)
	out = append(out, Fin(1, 100000, false), Fin(1, -100000, false), Fin(99, 99998, true), Fin(123456789, -4, false), Fin(5, -1, false), Fin(101, -2, false))
	return out
}

func c03Ctxs() []CtxCase {
	return []CtxCase{
		MkCtx(1, 0, 1, apd.RoundHalfEven, 0), MkCtx(2, -1, 4, apd.RoundUp, 0), MkCtx(3, -3, 9, apd.RoundFloor, 0), MkCtx(5, -6143, 6144, apd.RoundHalfEven, 0),
		MkCtx(3, -100000, 100000, apd.RoundHalfUp, 0), MkCtx(9, -20, 20, apd.RoundDown, 0),
	}
}

// ---------------------------------------------------------------------------
// Part B: the ErrDecimal machine

type edArgs struct {
	name string
	x, y DecJ
	dIsX bool
}

var edTuples = []edArgs{
	{"clean", DecJ{Coef: "2"}, DecJ{Coef: "4"}, false},
	{"inexact", DecJ{Coef: "1"}, DecJ{Coef: "3"}, false},
	{"subnormal", DecJ{Coef: "1", Exp: -30}, DecJ{Coef: "1", Exp: -29}, false},
	{"syslimit", DecJ{Coef: "9", Exp: 100000}, DecJ{Coef: "9", Exp: 100000}, false},
	{"nan", DecJ{Form: ref.SNaN}, DecJ{Coef: "1"}, false},
	{"divzero", DecJ{Coef: "5"}, DecJ{Coef: "0"}, false},
	{"alias", DecJ{Coef: "25", Exp: -1}, DecJ{Coef: "15", Exp: -1}, true},
}

// trap sets and flag sets of the SetTraps / PresetFlags pseudo-steps
var edRetraps = []apd.Condition{0, apd.Inexact, apd.Inexact | apd.Rounded, apd.DefaultTraps}
var edPresets = []apd.Condition{apd.Inexact | apd.Rounded, apd.DivisionByZero, apd.Subnormal}

type edStep struct {
	W string `json:"wrapper"`
	T int    `json:"tuple"`
}

type edCase struct {
	Traps uint32   `json:"traps"`
	Path  []edStep `json:"path"`
}

var edWrappers = []string{"Abs", "Add", "Ceil", "Exp", "Floor", "Int64", "Ln", "Log10", "Mul", "Neg", "Pow", "Quantize", "Quo", "QuoInteger", "Reduce", "Rem", "Round", "Sqrt", "Sub", "RoundToIntegralValue", "RoundToIntegralExact"}

func edCall(ed *apd.ErrDecimal, w string, d, x, y *apd.Decimal) (ret *apd.Decimal, extra string) {
	switch w {
	case "Abs":
		return ed.Abs(d, x), ""
	case "Add":
		return ed.Add(d, x, y), ""
	case "Ceil":
		return ed.Ceil(d, x), ""
	case "Exp":
		return ed.Exp(d, x), ""
	case "Floor":
		return ed.Floor(d, x), ""
	case "Int64":
		v := ed.Int64(x)
		return d, fmt.Sprint("int64=", v)
	case "Ln":
		return ed.Ln(d, x), ""
	case "Log10":
		return ed.Log10(d, x), ""
	case "Mul":
		return ed.Mul(d, x, y), ""
	case "Neg":
		return ed.Neg(d, x), ""
	case "Pow":
		return ed.Pow(d, x, y), ""
	case "Quantize":
		return ed.Quantize(d, x, -1), ""
	case "Quo":
		return ed.Quo(d, x, y), ""
	case "QuoInteger":
		return ed.QuoInteger(d, x, y), ""
	case "Reduce":
		n, r := ed.Reduce(d, x)
		return r, fmt.Sprint("count=", n)
	case "Rem":
		return ed.Rem(d, x, y), ""
	case "Round":
		return ed.Round(d, x), ""
	case "Sqrt":
		return ed.Sqrt(d, x), ""
	case "Sub":
		return ed.Sub(d, x, y), ""
	case "RoundToIntegralValue":
		return ed.RoundToIntegralValue(d, x), ""
	case "RoundToIntegralExact":
		return ed.RoundToIntegralExact(d, x), ""
	}
	panic("unknown wrapper " + w)
}

// ctxCall performs the Context operation of the same name (the model's right-hand side).
func ctxCall(c *apd.Context, w string, d, x, y *apd.Decimal) (extra string, res apd.Condition, err error) {
	switch w {
	case "Int64":
		v, e := x.Int64()
		return fmt.Sprint("int64=", v), 0, e
	case "Reduce":
		n, r, e := c.Reduce(d, x)
		return fmt.Sprint("count=", n), r, e
	case "Quantize":
		r, e := c.Quantize(d, x, -1)
		return "", r, e
	}
	r, e, pan := callOp(w, c, d, x, y, 0)
	if pan != "" {
		panic(pan)
	}
	return "", r, e
}

// edReplay runs a path on the real ErrDecimal and on the two-field model; returns the first mismatch.
func edRun(traps apd.Condition, path []edStep) (state string, msg string) {
	defer func() {
		if r := recover(); r != nil {
			msg = fmt.Sprintf("panic: %v", r)
		}
	}()
	ctx := &apd.Context{Precision: 5, MinExponent: -20, MaxExponent: 20, Rounding: apd.RoundHalfEven, Traps: traps}
	ed := apd.MakeErrDecimal(ctx)
	mErr := false
	var mFlags apd.Condition
	for i, st := range path {
		// user actions on the exported fields: the accumulated Flags may be carried over from elsewhere and
		// the Context's trap set may change between calls; Err() is documented as "the first error encountered
		// or the context's trap error if present", so flags that are (now) trapped are an error
		if st.W == "SetTraps" || st.W == "PresetFlags" {
			if st.W == "SetTraps" {
				traps = edRetraps[st.T]
				ctx.Traps = traps
			} else {
				ed.Flags |= edPresets[st.T]
				mFlags |= edPresets[st.T]
			}
			mErr = mErr || mFlags&(traps|sysFlags) != 0
			if (ed.Err() != nil) != mErr {
				return "", fmt.Sprintf("step %d %s: Err()=%v, model error=%v (flags %s, traps %s)", i, st.W, ed.Err(), mErr, ref.FlagNames(int(mFlags)), ref.FlagNames(int(traps)))
			}
			continue
		}
		tu := edTuples[st.T]
		mkd := func() (d, x, y *apd.Decimal) {
			x, y = tu.x.Build(), tu.y.Build()
			if tu.dIsX {
				return x, x, y
			}
			return DecJ{Coef: "777", Exp: -1, Neg: true}.Build(), x, y
		}
		d, x, y := mkd()
		before := rawStr(d)
		ret, extra := edCall(&ed, st.W, d, x, y)
		if ret != d {
			return "", fmt.Sprintf("step %d %s: wrapper did not return its destination", i, st.W)
		}
		if mErr {
			// once an error has occurred every later destination is untouched and the state is frozen
			if rawStr(d) != before {
				return "", fmt.Sprintf("step %d %s(%s): destination changed from %s to %s although an error had already occurred", i, st.W, tu.name, before, rawStr(d))
			}
			if st.W == "Int64" && extra != "int64=0" {
				return "", fmt.Sprintf("step %d Int64 returned %s after an error", i, extra)
			}
			if st.W == "Reduce" && extra != "count=0" {
				return "", fmt.Sprintf("step %d Reduce returned %s after an error", i, extra)
			}
		} else {
			d2, x2, y2 := mkd()
			c2 := *ctx
			wantExtra, res, err := ctxCall(&c2, st.W, d2, x2, y2)
			if err != nil && st.W == "Int64" {
				wantExtra = extra // value returned together with an error is unspecified
			}
			if rawStr(d) != rawStr(d2) || extra != wantExtra {
				return "", fmt.Sprintf("step %d %s(%s): wrapper produced %s %s, Context.%s produces %s %s", i, st.W, tu.name, rawStr(d), extra, st.W, rawStr(d2), wantExtra)
			}
			mFlags |= res
			mErr = err != nil || mFlags&(traps|sysFlags) != 0
		}
		if ed.Flags != mFlags {
			return "", fmt.Sprintf("step %d %s(%s): Flags %s, model %s", i, st.W, tu.name, ref.FlagNames(int(ed.Flags)), ref.FlagNames(int(mFlags)))
		}
		if (ed.Err() != nil) != mErr {
			return "", fmt.Sprintf("step %d %s(%s): Err()=%v, model error=%v (flags %s, traps %s)", i, st.W, tu.name, ed.Err(), mErr, ref.FlagNames(int(mFlags)), ref.FlagNames(int(traps)))
		}
	}
	return fmt.Sprintf("err=%v flags=%#x traps=%#x", mErr, uint32(mFlags), uint32(traps)), ""
}

func c03Run(e *core.Env) {
	// harness completeness: the wrapper table must cover every ErrDecimal method
	{
		t := reflect.TypeOf(&apd.ErrDecimal{})
		have := map[string]bool{"Err": true}
		for _, w := range edWrappers {
			have[w] = true
		}
		var missing []string
		for i := 0; i < t.NumMethod(); i++ {
			if !have[t.Method(i).Name] {
				missing = append(missing, t.Method(i).Name)
			}
		}
		if len(missing) > 0 {
			panic("ErrDecimal methods without a driver: " + strings.Join(missing, ","))
		}
	}
	// Part A
	var tSingle, tComposite time.Duration
	tStart := time.Now()
	defer func() {
		if e.R.Extra == nil {
			e.R.Extra = map[string]interface{}{}
		}
		e.R.Extra["t_single_s"] = tSingle.Seconds()
		e.R.Extra["t_composite_s"] = tComposite.Seconds()
		e.R.Extra["t_total_s"] = time.Since(tStart).Seconds()
	}()
	ops := c03Operands()
	ctxs := c03Ctxs()
	some := trapSets(false)
	all := trapSets(true)
	var limitSets []apd.Condition
	for i := 0; i < 12; i++ {
		limitSets = append(limitSets, 1<<uint(i))
	}
	limitSets = append(limitSets, apd.DefaultTraps, 4095)
	idx := int64(0)
	for ix := range ops {
		x := ops[ix]
		for _, op := range AllCtxOps {
			idx++
			if !e.Mine(idx) {
				continue
			}
			if e.Expired() {
				e.Cap("soft deadline in trap lattice")
				break
			}
			composite := !c03Single[op]
			for ci, cc := range ctxs {
				if composite && cc.C.Precision > 5 {
					continue
				}
				var ys []*Operand
				if binaryOp[op] {
					for iy := range ops {
						if composite && iy%4 != ix%4 {
							continue
						}
						if !e.Thorough() && !composite && iy%2 != (ix+ci)%2 {
							continue
						}
						ys = append(ys, &ops[iy])
					}
				} else {
					ys = []*Operand{nil}
				}
				for yi, y := range ys {
					if lim := nearLimit(x.V) || (y != nil && nearLimit(y.V)); lim && (ci != 4 && ci != 0 || (y != nil && yi%5 != 0 && !(nearLimit(x.V) && nearLimit(y.V)))) {
						continue // operations at the package limits cost milliseconds: two contexts, every fifth partner
					}
					sets := some
					if nearLimit(x.V) || (y != nil && nearLimit(y.V)) {
						// operations at the package limits cost milliseconds each: singletons + default + full only
						sets = limitSets
					}
					// the full lattice of 4096 sets on a core of cases (thorough: everywhere for single-rounding operations)
					if nearLimit(x.V) || (y != nil && nearLimit(y.V)) {
					} else if (e.Thorough() && !composite) || (!composite && (ix+yi+ci)%16 == 0) || (e.Thorough() && composite && (ix+yi)%8 == 0) {
						sets = all
					}
					e.State()
					t0 := time.Now()
					cls, n, ft, msg := c03Lattice(op, x, y, -1, cc, sets)
					if composite {
						tComposite += time.Since(t0)
					} else {
						tSingle += time.Since(t0)
					}
					e.TransOnly(n)
					e.Outcome(cls, strings.HasSuffix(cls, "/none"))
					if msg != "" {
						a := mkCase(op, x, y, cc)
						q := int32(-1)
						if op == "Quantize" {
							a.Exp = &q
						}
						e.Fail(op, "lattice", trapCase{A: a, Traps: uint32(ft)}, a.String()+fmt.Sprintf(" traps=%s: ", ref.FlagNames(int(ft)))+msg)
					} else if e.WantSample() {
						e.Sample(fmt.Sprintf("%s x=%s under %d trap sets => %s", op, x.V, len(sets), cls))
					}
				}
			}
		}
	}
	// Part A': roots whose conditions are raised in several places (the rounding of the approximation, the late
	// exactness check, the subnormal range): operands 1+2*10^-7 and 4+4*10^-7 (inexact, but every guard digit of the
	// approximation is zero) scaled into and out of a narrow exponent range, every trap set of the full lattice
	{
		// the lattice sample plus every pair of conditions (a condition raised late matters when it is the only trapped one
		// raised, or when the other trapped one is raised early)
		rootSets := append([]apd.Condition{}, some...)
		for i := 0; i < 12; i++ {
			for j := i; j < 12; j++ {
				rootSets = append(rootSets, 1<<uint(i)|1<<uint(j))
			}
		}
		var rx []Operand
		for _, cs := range []string{"10000002", "40000004", "99999998", "100000002", "400000004", "999999998", "1000000000000002", "27000000081", "2", "4", "27"} {
			for _, ex := range []int32{-7, -47, -48, -55, -56, 33} {
				rx = append(rx, DecJ{Coef: cs, Exp: ex}.Op())
			}
		}
		// precisions that keep the root 1.00000001 / 1.000000000000001 whole (no digit lost by the final rounding,
		// Inexact comes from the exactness check alone) in a range where the scaled operands have subnormal roots that lose no digit at Etiny (Etiny = -18 - p + 1 lies below the root's exponent)
		rc := []CtxCase{MkCtx(3, -18, 18, apd.RoundHalfEven, 0), MkCtx(12, -18, 18, apd.RoundHalfUp, 0), MkCtx(20, -18, 18, apd.RoundHalfEven, 0), MkCtx(9, -6143, 6144, apd.RoundHalfEven, 0)}
		for ix := range rx {
			for _, op := range []string{"Sqrt", "Cbrt"} {
				idx++
				if !e.Mine(idx) {
					continue
				}
				for _, cc := range rc {
					e.State()
					cls, n, ft, msg := c03Lattice(op, rx[ix], nil, -1, cc, rootSets)
					e.TransOnly(n)
					e.Outcome(cls, strings.HasSuffix(cls, "/none"))
					if msg != "" {
						a := mkCase(op, rx[ix], nil, cc)
						e.Fail(op, "lattice", trapCase{A: a, Traps: uint32(ft)}, a.String()+fmt.Sprintf(" traps=%s: ", ref.FlagNames(int(ft)))+msg)
					}
				}
			}
		}
	}
	// Part B: explicit-state search of the ErrDecimal machine
	trapsB := []apd.Condition{0, apd.Inexact, apd.DefaultTraps}
	var alphabet []edStep
	for _, w := range edWrappers {
		for t := range edTuples {
			alphabet = append(alphabet, edStep{w, t})
		}
	}
	for t := range edRetraps {
		alphabet = append(alphabet, edStep{"SetTraps", t})
	}
	for t := range edPresets {
		alphabet = append(alphabet, edStep{"PresetFlags", t})
	}
	depth := 3
	for ti, tr := range trapsB {
		_ = ti
		// every worker explores the sub-graph below its own share of first steps (local state merging;
		// states reached by several workers are explored more than once, which is sound)
		seen := map[string][]edStep{fmt.Sprintf("err=false flags=0x0 traps=%#x", uint32(tr)): nil}
		frontier := [][]edStep{nil}
		for lvl := 0; lvl < depth; lvl++ {
			var next [][]edStep
			for fi, path := range frontier {
				for ai, st := range alphabet {
					if lvl == 0 && !e.Mine(int64(ai)) {
						continue
					}
					full := append(append([]edStep{}, path...), st)
					owner := true
					_ = fi
					state, msg := edRun(tr, full)
					if owner {
						e.Trans(1)
						e.Outcome("errdecimal/"+st.W, false)
					}
					if msg != "" {
						if owner {
							e.Fail("ErrDecimal."+st.W, "errdecimal", edCase{uint32(tr), full}, fmt.Sprintf("traps=%s path=%v: %s", ref.FlagNames(int(tr)), full, msg))
						}
						continue
					}
					if _, ok := seen[state]; !ok {
						seen[state] = full
						next = append(next, full)
						if owner {
							e.State()
						}
					}
				}
			}
			frontier = next
		}
		{
			var ks []string
			for k := range seen {
				ks = append(ks, k)
			}
			sort.Strings(ks)
			e.Note(fmt.Sprintf("errdecimal-states-traps-%s=%d", ref.FlagNames(int(tr)), len(ks)))
		}
	}
	// all sequences of length 2 without state merging (every wrapper followed by every wrapper)
	n := int64(0)
	for _, tr := range trapsB {
		for _, a := range alphabet {
			for _, b := range alphabet {
				n++
				if !e.Mine(n) {
					continue
				}
				e.Trans(2)
				if _, msg := edRun(tr, []edStep{a, b}); msg != "" {
					e.Fail("ErrDecimal."+b.W, "errdecimal", edCase{uint32(tr), []edStep{a, b}}, fmt.Sprintf("traps=%s path=%v: %s", ref.FlagNames(int(tr)), []edStep{a, b}, msg))
				}
			}
		}
	}
}

func c03Replay(kind string, raw json.RawMessage) string {
	switch kind {
	case "lattice":
		var t trapCase
		if err := json.Unmarshal(raw, &t); err != nil {
			return "bad replay file"
		}
		x := t.A.X.Op()
		var y *Operand
		if t.A.Y != nil {
			o := t.A.Y.Op()
			y = &o
		}
		sets := trapSets(true)
		_, _, _, msg := c03Lattice(t.A.Op, x, y, -1, t.A.Ctx.Ctx(), sets)
		return msg
	case "errdecimal":
		var c edCase
		if err := json.Unmarshal(raw, &c); err != nil {
			return "bad replay file"
		}
		_, msg := edRun(apd.Condition(c.Traps), c.Path)
		return msg
	}
	return "unknown kind"
}

func init() {
	core.Register(&core.Prop{
		ID:    "C03",
		Title: "Traps turn raised conditions into errors and never change or hide results",
		Rule:  "Part A: every (operation x operands x context) case is executed under the empty trap set and under every trap set of the lattice (80 sets, all 4096 on a core of cases / everywhere for single-rounding operations in the thorough tier); trapped => error, no error => identical result and flags, single-rounding: error iff trapped or system limit with the result delivered alongside. Part A': Sqrt/Cbrt of 66 operands whose conditions are raised in several places (coefficients 1+2e-7, 1+2e-8, 1+2e-15, ... scaled into and out of the range [-18,18]) under the lattice sample plus all 78 singleton and pair trap sets x 4 contexts (p = 3, 9, 12, 20). Part B: explicit-state BFS of the ErrDecimal machine (state = error set, accumulated Flags, current trap set) over 21 wrappers x 7 argument tuples + 4 SetTraps + 3 PresetFlags pseudo-steps (user writes to the exported Ctx.Traps / Flags fields) x 3 initial trap sets to depth 3 plus all length-2 sequences, each transition compared with a two-field model that calls the Context operation of the same name. Non-trivial = the untrapped run raises at least one condition",
		Bounds: func(tier string) string {
			return fmt.Sprintf("Part A: %d operands (special alphabet + finite + package limits) x 22 operations x 6 contexts x (80 | 4096) trap sets; Part B: %d-letter alphabet, depth 3 with state merging + %d unmerged length-2 sequences x 3 trap sets", len(c03Operands()), len(edWrappers)*len(edTuples), len(edWrappers)*len(edTuples)*len(edWrappers)*len(edTuples))
		},
		Run:    c03Run,
		Replay: c03Replay,
		Assumptions: []string{
			"composite functions may return an error under a non-empty trap set although the final result would have been exact (internal steps run under the caller's traps); only 'trapped condition raised => error' and 'no error => identical to the untrapped run' are demanded of them",
		},
	})
}
