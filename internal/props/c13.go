package props

import (
	"encoding/json"
	"fmt"
	"math"
	"math/big"
	"strconv"
	"strings"

	"github.com/cockroachdb/apd/v3"

	"verif/internal/core"
	"verif/internal/ref"
)

// C13: text and binary encodings round-trip every Decimal exactly.

type c13Case struct {
	Kind string  `json:"kind"` // "text", "compose", "float"
	X    *DecJ   `json:"x,omitempty"`
	Dst  *DecJ   `json:"dst,omitempty"`
	Buf  int     `json:"buf,omitempty"`
	Bits *uint64 `json:"bits,omitempty"`
}

var c13Producers = []struct {
	name string
	f    func(d *apd.Decimal) (string, error)
}{
	{"String", func(d *apd.Decimal) (string, error) { return d.String(), nil }},
	{"Text(G)", func(d *apd.Decimal) (string, error) { return d.Text('G'), nil }},
	{"Text(g)", func(d *apd.Decimal) (string, error) { return d.Text('g'), nil }},
	{"Text(E)", func(d *apd.Decimal) (string, error) { return d.Text('E'), nil }},
	{"Text(e)", func(d *apd.Decimal) (string, error) { return d.Text('e'), nil }},
	{"MarshalText", func(d *apd.Decimal) (string, error) { b, err := d.MarshalText(); return string(b), err }},
	{"Value", func(d *apd.Decimal) (string, error) {
		v, err := d.Value()
		if err != nil {
			return "", err
		}
		s, ok := v.(string)
		if !ok {
			return "", fmt.Errorf("Value returned %T", v)
		}
		return s, nil
	}},
	{"%v", func(d *apd.Decimal) (string, error) { return fmt.Sprintf("%v", d), nil }},
	{"%s", func(d *apd.Decimal) (string, error) { return fmt.Sprintf("%s", d), nil }},
	{"%G", func(d *apd.Decimal) (string, error) { return fmt.Sprintf("%G", d), nil }},
	{"%E", func(d *apd.Decimal) (string, error) { return fmt.Sprintf("%E", d), nil }},
	{"%e", func(d *apd.Decimal) (string, error) { return fmt.Sprintf("%e", d), nil }},
}

// c13Others are encoded between producing an output and parsing it.
var c13Others = []*apd.Decimal{apd.New(987654321, -3), apd.New(-5, 40), {Form: apd.NaN}, apd.New(0, 0)}

var c13Consumers = []struct {
	name string
	f    func(s string) (*apd.Decimal, error)
}{
	{"SetString", func(s string) (*apd.Decimal, error) {
		d := new(apd.Decimal)
		_, _, err := d.SetString(s)
		return d, err
	}},
	{"NewFromString", func(s string) (*apd.Decimal, error) { d, _, err := apd.NewFromString(s); return d, err }},
	{"UnmarshalText", func(s string) (*apd.Decimal, error) { d := new(apd.Decimal); return d, d.UnmarshalText([]byte(s)) }},
	{"Scan(string)", func(s string) (*apd.Decimal, error) { d := new(apd.Decimal); return d, d.Scan(s) }},
	{"Scan([]byte)", func(s string) (*apd.Decimal, error) { d := new(apd.Decimal); return d, d.Scan([]byte(s)) }},
}

func identical(a, b ref.Val) bool {
	if a.Form != b.Form || a.Neg != b.Neg {
		return false
	}
	if a.Form == ref.Finite {
		return a.Exp == b.Exp && a.Coef.Cmp(b.Coef) == 0
	}
	return true
}

func c13Text(x Operand) (msg string) {
	defer func() {
		if r := recover(); r != nil {
			msg = fmt.Sprintf("panic: %v", r)
		}
	}()
	for _, p := range c13Producers {
		s, err := p.f(x.D)
		if err != nil {
			return fmt.Sprintf("%s: error %v", p.name, err)
		}
		for _, c := range c13Consumers {
			d, err := c.f(s)
			if err != nil {
				return fmt.Sprintf("%s -> %q -> %s: error %v", p.name, clip(s), c.name, err)
			}
			if got := ToVal(d); !identical(got, x.V) {
				return fmt.Sprintf("%s -> %q -> %s = %s, want the identical Decimal", p.name, clip(s), c.name, got)
			}
		}
	}
	// the output a caller holds must stay what it was: encode x, keep the bytes, encode other
	// decimals (same and different lengths), then parse the bytes kept
	for _, enc := range []struct {
		name string
		f    func(d *apd.Decimal) []byte
	}{
		{"MarshalText", func(d *apd.Decimal) []byte { b, _ := d.MarshalText(); return b }},
		{"Append(nil,'G')", func(d *apd.Decimal) []byte { return d.Append(nil, 'G') }},
	} {
		held := enc.f(x.D)
		snap := string(held)
		for _, o := range c13Others {
			enc.f(o)
			_ = o.String()
		}
		if string(held) != snap {
			return fmt.Sprintf("%s output %q changed to %q after later encoder calls on other Decimals", enc.name, clip(snap), clip(string(held)))
		}
		d := new(apd.Decimal)
		if err := d.UnmarshalText(held); err != nil || !identical(ToVal(d), x.V) {
			return fmt.Sprintf("%s output %q held across later encoder calls parses to %s (err %v)", enc.name, clip(snap), ToVal(d), err)
		}
	}
	// plain notation: everywhere up to |exponent| 3000, and for short coefficients over the whole exponent range
	// (a 100000-character digit run at the package limits)
	if x.V.Form == ref.Finite && (abs(x.V.Exp) <= 3000 || x.V.Coef.BitLen() < 8) {
		s := x.D.Text('f')
		d, _, err := apd.NewFromString(s)
		if err != nil {
			return fmt.Sprintf("Text('f') -> %q: error %v", clip(s), err)
		}
		got := ToVal(d)
		if got.Form != ref.Finite || got.Neg != x.V.Neg || ref.Cmp(absVal(got), absVal(x.V)) != 0 {
			return fmt.Sprintf("Text('f') -> %q -> %s: value or sign changed", clip(s), got)
		}
	}
	return ""
}

func c13Compose(x Operand, dst DecJ, bufMode int) (msg string) {
	defer func() {
		if r := recover(); r != nil {
			msg = fmt.Sprintf("panic: %v", r)
		}
	}()
	need := (x.V.Coef.BitLen() + 7) / 8
	var buf []byte
	switch bufMode {
	case 1:
		if need > 1 {
			buf = make([]byte, 0, need-1)
		}
	case 2:
		buf = make([]byte, 0, need)
	case 3:
		buf = make([]byte, 3, need+9)
		buf[0], buf[1], buf[2] = 0xaa, 0xbb, 0xcc
	}
	form, neg, coef, exp := x.D.Decompose(buf)
	keep := append([]byte{}, coef...)
	d := dst.Build()
	if err := d.Compose(form, neg, coef, exp); err != nil {
		return fmt.Sprintf("Compose error %v", err)
	}
	if string(keep) != string(coef) {
		return "Compose modified the coefficient slice"
	}
	got := ToVal(d)
	want := x.V
	if want.Form == ref.SNaN {
		want.Form = ref.NaN // documented
	}
	if got.Form != want.Form || got.Neg != want.Neg {
		return fmt.Sprintf("Compose(Decompose(x)) = %s, want %s", got, want)
	}
	switch want.Form {
	case ref.Finite:
		if got.Exp != want.Exp || got.Coef.Cmp(want.Coef) != 0 {
			return fmt.Sprintf("Compose(Decompose(x)) = %s, want %s", got, want)
		}
	default:
		// the composed value must not depend on what the destination held before:
		// compare with composing into a zero-value destination (CmpTotal observes NaN coefficients)
		var clean apd.Decimal
		f2, n2, c2, e2 := x.D.Decompose(nil)
		if err := clean.Compose(f2, n2, c2, e2); err != nil {
			return fmt.Sprintf("Compose error %v", err)
		}
		if d.CmpTotal(&clean) != 0 || d.Exponent != clean.Exponent || d.Coeff.Cmp(&clean.Coeff) != 0 {
			return fmt.Sprintf("Compose into a used destination gives %s (coef %s exp %d), into a fresh one %s (coef %s exp %d)", got, d.Coeff.String(), d.Exponent, ToVal(&clean), clean.Coeff.String(), clean.Exponent)
		}
	}
	return ""
}

func c13Float(bits uint64) (cls string, msg string) {
	f := math.Float64frombits(bits)
	defer func() {
		if r := recover(); r != nil {
			msg = fmt.Sprintf("panic: %v", r)
		}
	}()
	// the receiver is reused: it previously held one of the destination pre-states (negative, NaN, infinity, huge)
	ds := dstStates()
	d := *ds[int((bits>>52+bits)%uint64(len(ds)))].Build()
	if bits&1 == 0 {
		d = *DecJ{Form: ref.Inf, Neg: true, Coef: "99998", Exp: 11}.Build()
	}
	if bits&3 == 3 {
		d = *DecJ{Coef: "15", Exp: -1, Neg: true}.Build()
	}
	if _, err := d.SetFloat64(f); err != nil {
		return "float/error", fmt.Sprintf("SetFloat64 error %v", err)
	}
	if math.IsNaN(f) && d.Negative {
		return "float/nan", fmt.Sprintf("SetFloat64(NaN) into a receiver that held a negative value gives %s", ToVal(&d))
	}
	g, err := d.Float64()
	if err != nil && !(math.IsInf(g, 0) && math.IsInf(f, 0)) {
		return "float/error", fmt.Sprintf("Float64 error %v", err)
	}
	switch {
	case math.IsNaN(f):
		if !math.IsNaN(g) {
			return "float/nan", fmt.Sprintf("NaN -> %s -> %v", ToVal(&d), g)
		}
		return "float/nan", ""
	case math.IsInf(f, 0):
		cls = "float/inf"
	case f == 0:
		cls = "float/zero"
	case math.Abs(f) < 2.2250738585072014e-308:
		cls = "float/subnormal"
	default:
		cls = "float/normal"
	}
	if math.Float64bits(g) != bits {
		return cls, fmt.Sprintf("SetFloat64(%v) = %s, Float64() = %v (bits %#x, want %#x)", f, ToVal(&d), g, math.Float64bits(g), bits)
	}
	if cls == "float/normal" || cls == "float/subnormal" {
		v := ToVal(&d)
		if v.Form != ref.Finite || v.Neg != (f < 0) {
			return cls, fmt.Sprintf("SetFloat64(%v) = %s", f, v)
		}
		// exactness of the stored digits: they parse back to f
		digs := v.Coef.String()
		back, _ := strconv.ParseFloat(digs+"e"+strconv.Itoa(v.Exp), 64)
		if back != math.Abs(f) {
			return cls, fmt.Sprintf("stored coefficient %sE%d does not parse back to %v", digs, v.Exp, f)
		}
		// shortest: with one digit fewer neither neighbour round-trips
		t := strings.TrimRight(digs, "0")
		if len(t) > 1 {
			short := t[:len(t)-1]
			ex := v.Exp + len(digs) - len(short)
			lo, _ := strconv.ParseFloat(short+"e"+strconv.Itoa(ex), 64)
			up := new(big.Int)
			up.SetString(short, 10)
			up.Add(up, big.NewInt(1))
			hi, _ := strconv.ParseFloat(up.String()+"e"+strconv.Itoa(ex), 64)
			if lo == math.Abs(f) || hi == math.Abs(f) {
				return cls, fmt.Sprintf("coefficient %s is not the shortest that round-trips %v", digs, f)
			}
		}
	}
	return cls, ""
}

func mantissaPatterns() []uint64 {
	var out []uint64
	seen := map[uint64]bool{}
	add := func(m uint64) {
		m &= 1<<52 - 1
		if !seen[m] {
			seen[m] = true
			out = append(out, m)
		}
	}
	add(0)
	add(1)
	add(2)
	for i := uint(0); i < 52; i++ {
		add(1 << i)
		add(1<<(i+1) - 1)              // suffix run of ones
		add((1<<52 - 1) &^ (1<<i - 1)) // prefix run of ones
		add((1<<52 - 1) ^ (1 << i))    // all ones with one defect
	}
	add(1<<52 - 1)
	// 17-digit round-trip stress patterns (mantissas of 0.1, 1/3, pi, 5e-324-like tails, 9007199254740993-like)
	for _, f := range []float64{0.1, 0.3, 1.0 / 3, math.Pi, math.E, 5e-324, 1.7976931348623157e308, 2.2250738585072014e-308, 9007199254740993, 1e23, 8.41e21, 2.0e-308, 1.0000000000000002, 0.30000000000000004, 123456789.12345678} {
		add(math.Float64bits(f))
	}
	return out
}

func c13Run(e *core.Env) {
	sp := textSpace(e.Tier)
	dsts := dstStates()
	for i := range sp {
		if !e.Mine(int64(i)) {
			continue
		}
		if e.Expired() {
			e.Cap("soft deadline in text sweep")
			break
		}
		x := sp[i]
		e.State()
		e.Trans(int64(len(c13Producers)*len(c13Consumers) + 1))
		cls := "text/finite"
		if x.V.Form != ref.Finite {
			cls = "text/special"
		} else if x.V.Coef.Sign() == 0 {
			cls = "text/zero"
		} else if abs(x.V.Exp) > 90000 {
			cls = "text/limit"
		}
		e.Outcome(cls, false)
		if msg := c13Text(x); msg != "" {
			xj := x.J
			e.Fail(cls, "text", c13Case{Kind: "text", X: &xj}, fmt.Sprintf("%s: %s", x.V, msg))
		} else if e.WantSample() {
			e.Sample(fmt.Sprintf("%s: %d producers x %d consumers round-trip", x.V, len(c13Producers), len(c13Consumers)))
		}
		if abs(x.V.Exp) < 200 || i%16 == 0 {
			for bm := 0; bm < 4; bm++ {
				for di := range dsts {
					e.Trans(1)
					if msg := c13Compose(x, dsts[di], bm); msg != "" {
						xj, dj := x.J, dsts[di]
						e.Fail("compose", "compose", c13Case{Kind: "compose", X: &xj, Dst: &dj, Buf: bm}, fmt.Sprintf("%s buffer mode %d destination #%d: %s", x.V, bm, di, msg))
					}
				}
			}
			e.Outcome("compose", false)
		}
	}
	// NaNs with payloads and dirty infinities through Compose
	for i, j := range []DecJ{{Form: ref.NaN, Coef: "7"}, {Form: ref.SNaN, Neg: true, Coef: "123456789012345678901234567890"}, {Form: ref.Inf, Coef: "99998", Exp: 11}, {Form: ref.Inf, Neg: true}} {
		if !e.Mine(int64(i)) {
			continue
		}
		x := j.Op()
		for bm := 0; bm < 4; bm++ {
			for di := range dsts {
				e.Trans(1)
				if msg := c13Compose(x, dsts[di], bm); msg != "" {
					xj, dj := x.J, dsts[di]
					e.Fail("compose", "compose", c13Case{Kind: "compose", X: &xj, Dst: &dj, Buf: bm}, fmt.Sprintf("%s buffer mode %d destination #%d: %s", x.V, bm, di, msg))
				}
			}
		}
		e.Outcome("compose-special", false)
	}
	// float64: all sign/exponent combinations x mantissa patterns
	mp := mantissaPatterns()
	for ex := uint64(0); ex < 2048; ex++ {
		if !e.Mine(int64(ex)) {
			continue
		}
		if e.Expired() {
			e.Cap("soft deadline in float sweep")
			break
		}
		for _, sg := range []uint64{0, 1} {
			for _, m := range mp {
				bits := sg<<63 | ex<<52 | m
				e.State()
				e.Trans(2)
				cls, msg := c13Float(bits)
				e.Outcome(cls, false)
				if msg != "" {
					b := bits
					e.Fail(cls, "float", c13Case{Kind: "float", Bits: &b}, msg)
				} else if e.WantSample() {
					e.Sample(fmt.Sprintf("float64 bits %#x (%v) round-trips", bits, math.Float64frombits(bits)))
				}
			}
		}
	}
	// float32 slice selected by seed (thorough): every float32 in a window of 2^18 values
	if e.Thorough() {
		base := uint32((e.Seed % 16384)) << 18
		for k := uint32(0); k < 1<<18; k++ {
			if !e.Mine(int64(k)) {
				continue
			}
			f := float64(math.Float32frombits(base | k))
			e.State()
			e.Trans(2)
			cls, msg := c13Float(math.Float64bits(f))
			e.Outcome(cls+"/f32", false)
			if msg != "" {
				b := math.Float64bits(f)
				e.Fail(cls, "float", c13Case{Kind: "float", Bits: &b}, msg)
			}
		}
	}
}

func c13Replay(kind string, raw json.RawMessage) string {
	var c c13Case
	if err := json.Unmarshal(raw, &c); err != nil {
		return "bad replay file"
	}
	switch c.Kind {
	case "text":
		return c13Text(c.X.Op())
	case "compose":
		return c13Compose(c.X.Op(), *c.Dst, c.Buf)
	case "float":
		_, msg := c13Float(*c.Bits)
		return msg
	}
	return "unknown kind"
}

func init() {
	core.Register(&core.Prop{
		ID:    "C13",
		Title: "Text and binary encodings round-trip every Decimal exactly",
		Rule:  "every Decimal of the text space through every producer x every consumer (field-wise identity), Text('f') (value and sign), MarshalText/Append output held across four later encoder calls and parsed afterwards, Compose(Decompose(d)) with four buffer shapes into seven destination pre-states, and SetFloat64->Float64 on every sign/exponent combination x structured mantissa patterns (bit identity, shortest coefficient); every case is a distinct point of the product",
		Bounds: func(tier string) string {
			return fmt.Sprintf("text space: %d Decimals x 12 producers x 5 consumers; Compose: 4 buffer shapes x 7 destinations; float64: 2 x 2048 exponents x %d mantissa patterns (+ a seed-selected window of 2^18 float32 values in the thorough tier)", len(textSpace(tier)), len(mantissaPatterns()))
		},
		Run:    c13Run,
		Replay: c13Replay,
		Assumptions: []string{
			"strconv.ParseFloat is trusted for nearest-ness; non-finite values are canonical (zero coefficient) because apd documents that NaN payload digits are parsed and ignored",
		},
	})
}
