package props

import (
	"encoding/json"
	"fmt"
	"math"
	"math/big"
	"strings"
	"unsafe"

	"github.com/cockroachdb/apd/v3"

	"verif/internal/core"
	"verif/internal/ref"
)

// Shared machinery of C05 (aliasing) and C06 (purity): destination operations,
// observations and deep snapshots.

// dop is an operation writing a destination d from up to two operands.
type dop struct {
	name  string
	nargs int
	f     func(c *apd.Context, d, x, y *apd.Decimal) (extra string, res apd.Condition, err error)
}

func ctxDop(op string) dop {
	n := 1
	if binaryOp[op] {
		n = 2
	}
	return dop{name: op, nargs: n, f: func(c *apd.Context, d, x, y *apd.Decimal) (string, apd.Condition, error) {
		if op == "Reduce" {
			k, res, err := c.Reduce(d, x)
			return fmt.Sprint("count=", k), res, err
		}
		if op == "Quantize" {
			res, err := c.Quantize(d, x, -1)
			return "", res, err
		}
		res, err, pan := callOp(op, c, d, x, y, 0)
		if pan != "" {
			panic(pan)
		}
		return "", res, err
	}}
}

var allDops []dop
var setterDops []dop

func init() {
	for _, op := range AllCtxOps {
		allDops = append(allDops, ctxDop(op))
	}
	allDops = append(allDops,
		dop{"Decimal.Neg", 1, func(c *apd.Context, d, x, y *apd.Decimal) (string, apd.Condition, error) { d.Neg(x); return "", 0, nil }},
		dop{"Decimal.Abs", 1, func(c *apd.Context, d, x, y *apd.Decimal) (string, apd.Condition, error) { d.Abs(x); return "", 0, nil }},
		dop{"Decimal.Set", 1, func(c *apd.Context, d, x, y *apd.Decimal) (string, apd.Condition, error) { d.Set(x); return "", 0, nil }},
		dop{"Decimal.Reduce", 1, func(c *apd.Context, d, x, y *apd.Decimal) (string, apd.Condition, error) {
			_, k := d.Reduce(x)
			return fmt.Sprint("count=", k), 0, nil
		}},
		dop{"Modf(integ=d)", 1, func(c *apd.Context, d, x, y *apd.Decimal) (string, apd.Condition, error) {
			if x.Form != apd.Finite {
				return "skipped", 0, nil
			}
			var fr apd.Decimal
			x.Modf(d, &fr)
			return "frac=" + rawStr(&fr), 0, nil
		}},
		dop{"Modf(frac=d)", 1, func(c *apd.Context, d, x, y *apd.Decimal) (string, apd.Condition, error) {
			if x.Form != apd.Finite {
				return "skipped", 0, nil
			}
			var in apd.Decimal
			x.Modf(&in, d)
			return "integ=" + rawStr(&in), 0, nil
		}},
		dop{"Modf(integ=d,frac=nil)", 1, func(c *apd.Context, d, x, y *apd.Decimal) (string, apd.Condition, error) {
			if x.Form != apd.Finite {
				return "skipped", 0, nil
			}
			x.Modf(d, nil)
			return "", 0, nil
		}},
		dop{"Modf(integ=nil,frac=d)", 1, func(c *apd.Context, d, x, y *apd.Decimal) (string, apd.Condition, error) {
			if x.Form != apd.Finite {
				return "skipped", 0, nil
			}
			x.Modf(nil, d)
			return "", 0, nil
		}},
	)
	// operations with no Decimal operand: the result must not depend on what d held before
	mk := func(name string, f func(c *apd.Context, d *apd.Decimal) (string, apd.Condition, error)) dop {
		return dop{name, 0, func(c *apd.Context, d, x, y *apd.Decimal) (string, apd.Condition, error) { return f(c, d) }}
	}
	for _, s := range []string{"12.50E+3", "-0.000", "NaN", "-sNaN123", "Infinity", "1234567890123456789012345678901234567890.5", "bogus", "1e999999"} {
		s := s
		setterDops = append(setterDops,
			mk("Decimal.SetString("+s+")", func(c *apd.Context, d *apd.Decimal) (string, apd.Condition, error) {
				_, res, err := d.SetString(s)
				return "", res, err
			}),
			mk("Context.SetString("+s+")", func(c *apd.Context, d *apd.Decimal) (string, apd.Condition, error) {
				_, res, err := c.SetString(d, s)
				return "", res, err
			}),
			mk("UnmarshalText("+s+")", func(c *apd.Context, d *apd.Decimal) (string, apd.Condition, error) {
				return "", 0, d.UnmarshalText([]byte(s))
			}),
			mk("Scan("+s+")", func(c *apd.Context, d *apd.Decimal) (string, apd.Condition, error) { return "", 0, d.Scan(s) }))
	}
	setterDops = append(setterDops,
		mk("SetInt64(-42)", func(c *apd.Context, d *apd.Decimal) (string, apd.Condition, error) {
			d.SetInt64(-42)
			return "", 0, nil
		}),
		mk("SetFinite(7,-3)", func(c *apd.Context, d *apd.Decimal) (string, apd.Condition, error) {
			d.SetFinite(7, -3)
			return "", 0, nil
		}),
		mk("SetFloat64(0.1)", func(c *apd.Context, d *apd.Decimal) (string, apd.Condition, error) {
			_, err := d.SetFloat64(0.1)
			return "", 0, err
		}),
		mk("SetFloat64(NaN)", func(c *apd.Context, d *apd.Decimal) (string, apd.Condition, error) {
			_, err := d.SetFloat64(math.NaN())
			return "", 0, err
		}),
		mk("SetFloat64(-Inf)", func(c *apd.Context, d *apd.Decimal) (string, apd.Condition, error) {
			_, err := d.SetFloat64(math.Inf(-1))
			return "", 0, err
		}),
		mk("SetFloat64(-0)", func(c *apd.Context, d *apd.Decimal) (string, apd.Condition, error) {
			_, err := d.SetFloat64(math.Copysign(0, -1))
			return "", 0, err
		}),
		mk("Scan(NaN float64)", func(c *apd.Context, d *apd.Decimal) (string, apd.Condition, error) { return "", 0, d.Scan(math.NaN()) }),
		mk("Scan(int64)", func(c *apd.Context, d *apd.Decimal) (string, apd.Condition, error) { return "", 0, d.Scan(int64(77)) }),
		mk("Scan(float64)", func(c *apd.Context, d *apd.Decimal) (string, apd.Condition, error) { return "", 0, d.Scan(2.5) }),
		mk("Compose(finite)", func(c *apd.Context, d *apd.Decimal) (string, apd.Condition, error) {
			return "", 0, d.Compose(0, true, []byte{0x01, 0x02}, -2)
		}),
		mk("Compose(inf)", func(c *apd.Context, d *apd.Decimal) (string, apd.Condition, error) {
			return "", 0, d.Compose(1, true, nil, 0)
		}),
		mk("Compose(nan)", func(c *apd.Context, d *apd.Decimal) (string, apd.Condition, error) {
			return "", 0, d.Compose(2, false, nil, 0)
		}),
		mk("Compose(bad)", func(c *apd.Context, d *apd.Decimal) (string, apd.Condition, error) {
			return "", 0, d.Compose(9, false, nil, 0)
		}),
	)
}

func rawStr(d *apd.Decimal) string {
	return fmt.Sprintf("{form=%d neg=%v exp=%d coef=%s}", d.Form, d.Negative, d.Exponent, d.Coeff.String())
}

// obsStr is obs(d): what the properties call the observable result.
func obsStr(d *apd.Decimal) string {
	switch d.Form {
	case apd.Finite:
		return fmt.Sprintf("finite neg=%v %sE%d", d.Negative, d.Coeff.String(), d.Exponent)
	case apd.Infinite:
		return fmt.Sprintf("inf neg=%v", d.Negative)
	case apd.NaN, apd.NaNSignaling:
		return fmt.Sprintf("nan form=%d neg=%v payload=%s", d.Form, d.Negative, d.Coeff.String())
	}
	return fmt.Sprintf("invalid form %d", d.Form)
}

// deepSnap is the bit-for-bit snapshot of a Decimal including the hidden BigInt representation.
func deepSnap(d *apd.Decimal) string {
	l := (*bigIntLayout)(unsafe.Pointer(&d.Coeff))
	s := fmt.Sprintf("form=%d neg=%v exp=%d inline=%x,%x ", d.Form, d.Negative, d.Exponent, l.inline[0], l.inline[1])
	switch {
	case l.inner == nil:
		s += "inner=nil"
	case l.inner == c16Sentinel:
		s += "inner=neg-sentinel"
	default:
		b := l.inner.Bits()
		s += fmt.Sprintf("inner=heap sign=%d len=%d cap=%d words=%x", l.inner.Sign(), len(b), cap(b), b)
	}
	return s
}

type runOut struct {
	obs   string
	extra string
	res   apd.Condition
	err   string
	pan   string
}

func (r runOut) String() string {
	if r.pan != "" {
		return "panic(" + r.pan + ")"
	}
	return fmt.Sprintf("%s %s [%s] err=%q", r.obs, r.extra, ref.FlagNames(int(r.res)), r.err)
}

func runDop(o dop, c apd.Context, d, x, y *apd.Decimal) (out runOut) {
	defer func() {
		if r := recover(); r != nil {
			out.pan = fmt.Sprint(r)
		}
	}()
	extra, res, err := o.f(&c, d, x, y)
	out.extra, out.res = extra, res
	if err != nil {
		out.err = err.Error()
	}
	out.obs = obsStr(d)
	if (err != nil && (res == 0 || res&(apd.SystemOverflow|apd.SystemUnderflow) != 0)) || extra == "skipped" {
		// An error without a Condition, or with a system-limit Condition, means no result was delivered
		// (an internal step failed or a package exponent limit was hit): the destination's content is
		// then unspecified and is not compared.
		out.obs = "(no result delivered)"
	}
	return
}

// ---------------------------------------------------------------------------
// C05

type aliasCase struct {
	Op      string `json:"op"`
	X       DecJ   `json:"x"`
	Y       *DecJ  `json:"y,omitempty"`
	Ctx     CtxJ   `json:"ctx"`
	Pattern string `json:"pattern"`
}

func findDop(name string) (dop, bool) {
	for _, o := range allDops {
		if o.name == name {
			return o, true
		}
	}
	for _, o := range setterDops {
		if o.name == name {
			return o, true
		}
	}
	return dop{}, false
}

// c05One runs one alias pattern and compares it with the all-distinct run on equal values.
func c05One(o dop, xj DecJ, yj *DecJ, cc CtxCase, pattern string) string {
	// distinct baseline
	bx := xj.Build()
	var by *apd.Decimal
	if yj != nil {
		by = yj.Build()
	}
	var bd apd.Decimal
	base := runDop(o, cc.C, &bd, bx, by)
	// aliased run on fresh objects
	x := xj.Build()
	var y *apd.Decimal
	if yj != nil {
		y = yj.Build()
	}
	var d *apd.Decimal
	switch pattern {
	case "d==x":
		d = x
	case "d==y":
		d = y
	case "x==y":
		y = x
		d = new(apd.Decimal)
	case "d==x==y":
		y = x
		d = x
	default:
		return "unknown pattern"
	}
	xs, ys := "", ""
	if d != x {
		xs = deepSnap(x)
	}
	if y != nil && d != y {
		ys = deepSnap(y)
	}
	got := runDop(o, cc.C, d, x, y)
	if got != base {
		return fmt.Sprintf("pattern %s gives %s, distinct objects give %s", pattern, got, base)
	}
	if d != x && deepSnap(x) != xs {
		return fmt.Sprintf("pattern %s modified the non-destination operand x: %s -> %s", pattern, xs, deepSnap(x))
	}
	if y != nil && d != y && deepSnap(y) != ys {
		return fmt.Sprintf("pattern %s modified the non-destination operand y: %s -> %s", pattern, ys, deepSnap(y))
	}
	return ""
}

func c05Operands(tier string) []DecJ {
	var out []DecJ
	var ops []Operand
	if tier == "thorough" {
		ops = append(Dense(2, 3), Edge([]int32{-129, -40, -1, 0, 1, 40, 129})...)
	} else {
		ops = append(DenseSel(2, 2, func(c int64) bool { return c < 12 || c == 25 || c == 50 || c == 99 || c == 64 }), Edge([]int32{-40, 0, 1})...)
	}
	for _, o := range ops {
		out = append(out, o.J)
		if o.V.Coef.BitLen() <= 64 && (o.V.Coef.Int64()%7 == 1) {
			h := o.J
			h.Heap = true
			out = append(out, h)
		}
	}
	for _, o := range c08Alphabet() {
		if o.V.Form != ref.Finite || o.V.Coef.Sign() == 0 {
			out = append(out, o.J)
		}
	}
	out = append(out, DecJ{Coef: "5", Exp: -2}, DecJ{Coef: "5", Exp: -2, Neg: true}, DecJ{Coef: "95", Exp: -2}, DecJ{Coef: "12345678901234567890123456789012345678901234567", Exp: -20})
	return out
}

func c05Ctxs(tier string) []CtxCase {
	out := []CtxCase{
		MkCtx(1, -1, 3, apd.RoundHalfEven, 0), MkCtx(2, 0, 2, apd.RoundUp, 0), MkCtx(3, -3, 9, apd.RoundFloor, 0), MkCtx(3, -6143, 6144, apd.RoundHalfUp, 0),
		MkCtx(5, -6143, 6144, apd.RoundHalfEven, apd.DefaultTraps), MkCtx(9, -100000, 100000, apd.RoundDown, 0), MkCtx(16, -6143, 6144, apd.RoundHalfEven, apd.Inexact|apd.Rounded),
		MkCtx(0, -100000, 100000, apd.RoundHalfUp, 0),
		MkCtx(2, -3, 9, "", 0), // the empty Rounder: the documented default (half_up), resolved inside the rounding step
	}
	if tier == "thorough" {
		out = append(out, MkCtx(4, -1, 6, apd.RoundCeiling, 0), MkCtx(7, -3, 9, apd.Round05Up, 0), MkCtx(2, -1, 4, apd.RoundHalfDown, apd.InvalidOperation), MkCtx(34, -6143, 6144, apd.RoundHalfEven, 0))
	}
	return out
}

func c05Run(e *core.Env) {
	if err := c16LayoutOK(); err != nil {
		panic(err)
	}
	xs := c05Operands(e.Tier)
	ctxs := c05Ctxs(e.Tier)
	ys := xs
	if !e.Thorough() {
		ys = nil
		for i, j := range xs {
			if i%9 == 0 || j.Form != ref.Finite || j.Coef == "0" {
				ys = append(ys, j)
			}
		}
	}
	fail := func(o dop, xj DecJ, yj *DecJ, cc CtxCase, pat, msg string) {
		ac := aliasCase{Op: o.name, X: xj, Y: yj, Ctx: cc.J(), Pattern: pat}
		s := fmt.Sprintf("%s(x=%s", o.name, xj.Val())
		if yj != nil {
			s += ", y=" + yj.Val().String()
		}
		e.Fail(o.name+"/"+pat, "alias", ac, fmt.Sprintf("%s) ctx=%+v: %s", s, cc.J(), msg))
	}
	for ix := range xs {
		if !e.Mine(int64(ix)) {
			continue
		}
		if e.Expired() {
			e.Cap("soft deadline")
			break
		}
		xj := xs[ix]
		e.State()
		for _, cc := range ctxs {
			for _, o := range allDops {
				if cc.C.Precision == 0 && !p0Op[o.name] && !strings.Contains(o.name, ".") && !strings.HasPrefix(o.name, "Modf") {
					continue
				}
				if o.nargs == 1 {
					e.TransOnly(2)
					e.Outcome(o.name+"/d==x", false)
					if msg := c05One(o, xj, nil, cc, "d==x"); msg != "" {
						fail(o, xj, nil, cc, "d==x", msg)
					}
					continue
				}
				if (o.name == "Pow" || o.name == "Ln") && cc.C.Precision > 9 {
					continue
				}
				for iy := range ys {
					yj := ys[iy]
					pats := []string{"d==x", "d==y"}
					if xj == yj {
						pats = append(pats, "x==y", "d==x==y")
					}
					for _, pat := range pats {
						e.TransOnly(2)
						e.Outcome(o.name+"/"+pat, false)
						if msg := c05One(o, xj, &yj, cc, pat); msg != "" {
							fail(o, xj, &yj, cc, pat, msg)
						}
					}
				}
				if e.WantSample() {
					e.Sample(fmt.Sprintf("%s x=%s against %d second operands, patterns d==x, d==y (x==y, d==x==y on equal values)", o.name, xj.Val(), len(ys)))
				}
			}
		}
	}
	// high precision and exponent gaps beyond the 128-entry power-of-ten table: the operand that is rescaled is
	// the aliased one, and the long result still fits (the arithmetic operations only; p = 300 and 150)
	{
		long200 := strings.Repeat("1234567890", 20)
		pairs := [][2]DecJ{
			{{Coef: "1", Exp: 150}, {Coef: "3"}}, {{Coef: "3"}, {Coef: "1", Exp: 150}},
			{{Coef: "12345", Exp: 200}, {Coef: "7", Exp: 10}}, {{Coef: "7", Exp: 10}, {Coef: "12345", Exp: 200}},
			{{Coef: long200}, {Coef: "7", Exp: 130}}, {{Coef: "7", Exp: 130}, {Coef: long200}},
			{{Coef: long200, Exp: -140}, {Coef: "3", Neg: true}}, {{Coef: "9", Exp: 129}, {Coef: "9", Exp: 129}},
			{{Coef: "1", Exp: -129, Neg: true}, {Coef: "5"}}, {{Coef: "5"}, {Coef: "1", Exp: -129}},
			// equal digit-count + exponent sums with a heap-backed (>= 2^128) coefficient on one side: Cmp, Add, Sub must align
			{{Coef: "1" + strings.Repeat("0", 43) + "1", Exp: -44}, {Coef: "1"}}, {{Coef: "1"}, {Coef: "1" + strings.Repeat("0", 43) + "1", Exp: -44}},
			{{Coef: "1" + strings.Repeat("0", 38) + "1", Exp: -39, Neg: true}, {Coef: "1", Neg: true}}, {{Coef: "2"}, {Coef: "1" + strings.Repeat("9", 40), Exp: -40}},
		}
		hctx := []CtxCase{MkCtx(300, -6143, 6144, apd.RoundHalfEven, 0), MkCtx(150, -6143, 6144, apd.RoundDown, 0)}
		n := int64(0)
		// unary: operands with more than 128 fractional digits and an integral part (the split needs a power of
		// ten beyond the lookup table) through every one-operand operation in place
		for _, xj := range []DecJ{{Coef: "7" + strings.Repeat("25", 65), Exp: -130}, {Coef: "7" + strings.Repeat("25", 65), Exp: -130, Neg: true}, {Coef: strings.Repeat("9", 140), Exp: -129}, {Coef: "1" + strings.Repeat("0", 199) + "5", Exp: -200}} {
			for _, o := range allDops {
				if o.nargs != 1 {
					continue
				}
				n++
				if !e.Mine(n) {
					continue
				}
				e.State()
				for _, cc := range hctx {
					if (o.name == "Ln" || o.name == "Exp" || o.name == "Log10" || o.name == "Cbrt") && cc.C.Precision > 150 {
						continue
					}
					e.TransOnly(2)
					e.Outcome(o.name+"/d==x/frac>128", false)
					if msg := c05One(o, xj, nil, cc, "d==x"); msg != "" {
						fail(o, xj, nil, cc, "d==x", msg)
					}
				}
			}
		}
		for _, pr := range pairs {
			for _, name := range []string{"Add", "Sub", "Mul", "Quo", "QuoInteger", "Rem", "Cmp"} {
				n++
				if !e.Mine(n) {
					continue
				}
				o, ok := findDop(name)
				if !ok {
					panic("no operation " + name)
				}
				e.State()
				for _, cc := range hctx {
					pats := []string{"d==x", "d==y"}
					if pr[0] == pr[1] {
						pats = append(pats, "x==y", "d==x==y")
					}
					for _, pat := range pats {
						yj := pr[1]
						e.TransOnly(2)
						e.Outcome(o.name+"/"+pat+"/gap>128", false)
						if msg := c05One(o, pr[0], &yj, cc, pat); msg != "" {
							fail(o, pr[0], &yj, cc, pat, msg)
						}
					}
				}
			}
		}
	}
	// BigInt methods: receiver aliasing an argument, both arguments the same object (mirrored on math/big)
	for i := range c16Alphabet {
		if !e.Mine(int64(i)) {
			continue
		}
		for _, heap := range []bool{false, true} {
			if heap && c16Alphabet[i].BitLen() > 128 {
				continue
			}
			path := []c16Step{{Op: "SetMathBigInt", N: int64(i)}}
			if heap {
				path = append(path, c16Step{Op: "Lsh", Args: []c16Arg{{Idx: -1}}, N: 200}, c16Step{Op: "Rsh", Args: []c16Arg{{Idx: -1}}, N: 200})
			}
			for _, op := range c16Binary {
				var tuples [][]c16Arg
				tuples = append(tuples, []c16Arg{{Idx: -1}, {Idx: -1}})
				for _, j := range c16Small {
					tuples = append(tuples, []c16Arg{{Idx: -1}, {Idx: j}}, []c16Arg{{Idx: j}, {Idx: -1}}, []c16Arg{{Idx: j}, {Idx: j}})
				}
				for _, tu := range tuples {
					st := c16Step{Op: op, Args: tu}
					if op == "ExpMod" {
						st.N = 7
					}
					p, msg := c16Build(path)
					if msg == "" {
						msg, _ = c16Apply(p, st)
					}
					e.Trans(1)
					e.Outcome("BigInt."+op+"/alias", false)
					if msg != "" {
						full := append(append([]c16Step{}, path...), st)
						e.Fail("BigInt."+op, "bigint", c16Case{full}, pathString(full)+": "+msg)
					}
				}
			}
			for _, op := range c16Unary {
				st := c16Step{Op: op, Args: []c16Arg{{Idx: -1}}}
				p, msg := c16Build(path)
				if msg == "" {
					msg, _ = c16Apply(p, st)
				}
				e.Trans(1)
				e.Outcome("BigInt."+op+"/alias", false)
				if msg != "" {
					full := append(append([]c16Step{}, path...), st)
					e.Fail("BigInt."+op, "bigint", c16Case{full}, pathString(full)+": "+msg)
				}
			}
		}
	}
}

func c05Replay(kind string, raw json.RawMessage) string {
	if err := c16LayoutOK(); err != nil {
		return err.Error()
	}
	if kind == "bigint" {
		return c16Replay(kind, raw)
	}
	var a aliasCase
	if err := json.Unmarshal(raw, &a); err != nil {
		return "bad replay file"
	}
	o, ok := findDop(a.Op)
	if !ok {
		return "unknown operation " + a.Op
	}
	return c05One(o, a.X, a.Y, a.Ctx.Ctx(), a.Pattern)
}

func init() {
	core.Register(&core.Prop{
		ID:    "C05",
		Title: "Any argument may alias the destination or another argument",
		Rule:  "every destination-writing operation (22 Context operations, Decimal.Neg/Abs/Set/Reduce, four Modf output shapes) x operand tuples x contexts x alias patterns {d==x, d==y, x==y, d==x==y} is executed on fresh objects and compared (observable result, Condition, error text, integer results, deep snapshot of non-destination operands) with the same operation on distinct objects holding equal values; BigInt methods under receiver/argument aliasing are mirrored on math/big; every aliased run is a distinct non-trivial case",
		Bounds: func(tier string) string {
			return fmt.Sprintf("%d operand representations (DENSE + EDGE, inline and heap-backed, NaN/sNaN/clean+dirty infinities, signed zeros) x second operands x %d contexts (incl. precision 0 and trap sets) x %d operations; 14 operand pairs with exponent gaps of 129-200 (1E+150 and 3, a 200-digit operand and 7E+130, ...) or tying digit-count + exponent sums with a 40-45 digit coefficient x 7 arithmetic operations at Precision 300 and 150; BigInt: %d alphabet values x 2 representations x (17 binary x 43 alias tuples + 5 unary)", len(c05Operands(tier)), len(c05Ctxs(tier)), len(allDops), len(c16Alphabet))
		},
		Run:         c05Run,
		Replay:      c05Replay,
		Assumptions: []string{"differential oracle: the distinct-object run of the same implementation is the reference; BigInt alias patterns restricted to those math/big supports"},
	})
}

var _ = big.NewInt
