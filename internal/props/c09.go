package props

import (
	"encoding/json"
	"fmt"
	"math/big"

	"github.com/cockroachdb/apd/v3"

	"verif/internal/core"
	"verif/internal/ref"
)

// C09: Quantize / RoundToIntegral / Ceil / Floor against an exact integer oracle.

func c09Quantize(x Operand, e int32, cc CtxCase) (cls string, trivial bool, msg string) {
	want, inexact, dropped, invalid := ref.QuantizeRef(x.V, int(e), cc.R)
	if cc.R.P == 0 {
		invalid = true // no coefficient has "at most 0 digits": Quantize is invalid under Precision 0
	}
	var d apd.Decimal
	c := cc.C
	res, err, pan := callOp("Quantize", &c, &d, x.D, nil, e)
	if pan != "" {
		return "Quantize/panic", false, "panic: " + pan
	}
	if err != nil {
		if isSysErr(res, err) && (nearLimit(x.V) || abs(int(e)) > 99000) {
			return "Quantize/syslimit", false, ""
		}
		return "Quantize/error", false, fmt.Sprintf("unexpected error %q with empty trap set", err)
	}
	got := ToVal(&d)
	if abs(int(e)) > ref.Limit && got.Form == ref.NaN && int(res)&ref.InvalidOperation != 0 {
		// the requested exponent itself is beyond the package's exponent limits
		// (reachable as Etiny of a context with MinExponent -100000): no Decimal
		// may carry it, so NaN+InvalidOperation is the system-limit outcome
		return "Quantize/syslimit", false, ""
	}
	switch {
	case invalid:
		cls = "Quantize/invalid"
	case inexact:
		cls = "Quantize/inexact"
		if int(e)-x.V.Exp > ref.NDig(x.V.Coef) {
			cls += "-all-digits-discarded"
		}
	case dropped:
		cls = "Quantize/zeros-dropped"
	default:
		cls = "Quantize/exact"
	}
	trivial = cls == "Quantize/exact"
	if invalid {
		if got.Form != ref.NaN || int(res)&ref.InvalidOperation == 0 {
			return cls, trivial, fmt.Sprintf("want NaN+InvalidOperation (coefficient %s needs more than %d digits or exponent %d outside [%d,%d]); got %s [%s]", want.Coef, cc.R.P, e, cc.R.Etiny(), cc.R.Emax, got, ref.FlagNames(int(res)))
		}
		return cls, trivial, ""
	}
	if got.Form != ref.Finite {
		return cls, trivial, fmt.Sprintf("want %s; got %s [%s]", want, got, ref.FlagNames(int(res)))
	}
	if got.Exp != int(e) {
		return cls, trivial, fmt.Sprintf("result exponent %d != requested %d (got %s)", got.Exp, e, got)
	}
	if got.Coef.Cmp(want.Coef) != 0 || got.Neg != want.Neg {
		return cls, trivial, fmt.Sprintf("want %s; got %s [%s]", want, got, ref.FlagNames(int(res)))
	}
	f := int(res)
	if (f&ref.Inexact != 0) != inexact {
		return cls, trivial, fmt.Sprintf("Inexact=%v but digits lost=%v (flags %s)", f&ref.Inexact != 0, inexact, ref.FlagNames(f))
	}
	if inexact && f&ref.Rounded == 0 {
		return cls, trivial, "Inexact without Rounded: " + ref.FlagNames(f)
	}
	if !dropped && f&ref.Rounded != 0 {
		return cls, trivial, "Rounded although no digit was dropped (target exponent <= operand exponent): " + ref.FlagNames(f)
	}
	if f&(ref.Overflow|ref.Underflow|ref.InvalidOperation) != 0 {
		return cls, trivial, "Quantize raised " + ref.FlagNames(f)
	}
	if inexact {
		// the same call with the destination being the operand (money code quantizes in place)
		xa := x.J.Build()
		c2 := cc.C
		res2, err2, pan2 := callOp("Quantize", &c2, xa, xa, nil, e)
		g2 := ToVal(xa)
		if pan2 != "" || err2 != nil || res2 != res || g2.Form != got.Form || g2.Neg != got.Neg || g2.Exp != got.Exp || g2.Coef.Cmp(got.Coef) != 0 {
			return cls, trivial, fmt.Sprintf("in place (d == x): %s [%s] err=%v panic=%q; with a distinct destination: %s [%s]", g2, ref.FlagNames(int(res2)), err2, pan2, got, ref.FlagNames(f))
		}
	}
	return cls, trivial, ""
}

func c09ToIntegral(op string, x Operand, cc CtxCase) (cls string, trivial bool, msg string) {
	c0 := cc.R
	c0.P = 0
	c0.Emin, c0.Emax = -(1 << 30), 1<<30
	var want ref.Val
	inexact := false
	if x.V.Exp >= 0 {
		want = x.V
	} else {
		want, inexact, _, _ = ref.QuantizeRef(x.V, 0, c0)
	}
	if want.Coef.Sign() != 0 && want.Adj() > cc.R.Emax {
		return op + "/beyond-emax", false, "" // outside the property's quantifier
	}
	var d apd.Decimal
	c := cc.C
	res, err, pan := callOp(op, &c, &d, x.D, nil, 0)
	if pan != "" {
		return op + "/panic", false, "panic: " + pan
	}
	cls = op + "/exact"
	if inexact {
		cls = op + "/inexact"
	}
	trivial = !inexact
	if err != nil {
		if isSysErr(res, err) && nearLimit(x.V) {
			return op + "/syslimit", false, ""
		}
		return cls, trivial, fmt.Sprintf("unexpected error %q with empty trap set", err)
	}
	got := ToVal(&d)
	if got.Form != ref.Finite || got.Neg != want.Neg || !ref.EqualNumeric(got, want) {
		return cls, trivial, fmt.Sprintf("want %s; got %s [%s]", want, got, ref.FlagNames(int(res)))
	}
	if x.V.Exp < 0 && got.Exp != 0 {
		return cls, trivial, fmt.Sprintf("result exponent %d != 0 (got %s)", got.Exp, got)
	}
	f := int(res)
	if op == "RoundToIntegralValue" {
		if f&(ref.Inexact|ref.Rounded) != 0 {
			return cls, trivial, "RoundToIntegralValue reported " + ref.FlagNames(f)
		}
	} else {
		if (f&ref.Inexact != 0) != inexact {
			return cls, trivial, fmt.Sprintf("Inexact=%v but digits lost=%v (flags %s)", f&ref.Inexact != 0, inexact, ref.FlagNames(f))
		}
		if inexact && f&ref.Rounded == 0 {
			return cls, trivial, "Inexact without Rounded: " + ref.FlagNames(f)
		}
	}
	if f&(ref.Overflow|ref.Underflow|ref.InvalidOperation|ref.Subnormal) != 0 {
		return cls, trivial, op + " raised " + ref.FlagNames(f)
	}
	return cls, trivial, ""
}

func c09CeilFloor(op string, x Operand, cc CtxCase) (cls string, trivial bool, msg string) {
	r := ref.Rat(x.V)
	fl := new(big.Int).Div(r.Num(), r.Denom()) // floor (Denom > 0, Div is Euclidean)
	isInt := r.IsInt()
	want := new(big.Int).Set(fl)
	if op == "Ceil" && !isInt {
		want.Add(want, big.NewInt(1))
	}
	// quantifier: the integer part and the result fit the precision and the exponent range
	integ := new(big.Int).Quo(r.Num(), r.Denom())
	fits := func(b *big.Int) bool {
		// digits needed when written with the trailing zeros removed is what the context can hold
		t := new(big.Int).Abs(b)
		if t.Sign() == 0 {
			return true
		}
		nd := ref.NDig(t)
		if nd-1 > cc.R.Emax {
			return false
		}
		if cc.R.P == 0 {
			return true
		}
		z := 0
		m := new(big.Int)
		q := new(big.Int).Set(t)
		for {
			q.QuoRem(q, big.NewInt(10), m)
			if m.Sign() != 0 {
				break
			}
			z++
		}
		return nd-z <= cc.R.P
	}
	if !fits(integ) || !fits(want) {
		return op + "/beyond-precision", false, ""
	}
	if isInt {
		cls = op + "/integer"
	} else {
		cls = op + "/fraction"
		if (op == "Ceil") == (r.Sign() > 0) {
			cls += "-step"
		}
	}
	trivial = isInt
	var d apd.Decimal
	c := cc.C
	res, err, pan := callOp(op, &c, &d, x.D, nil, 0)
	if pan != "" {
		return op + "/panic", false, "panic: " + pan
	}
	if err != nil {
		if isSysErr(res, err) && nearLimit(x.V) {
			return op + "/syslimit", false, ""
		}
		return cls, trivial, fmt.Sprintf("unexpected error %q", err)
	}
	got := ToVal(&d)
	if got.Form != ref.Finite || got.Coef.Sign() < 0 {
		return cls, trivial, fmt.Sprintf("want %s; got %s", want, got)
	}
	gr := ref.Rat(got)
	if !gr.IsInt() || gr.Num().Cmp(want) != 0 {
		return cls, trivial, fmt.Sprintf("want %s; got %s [%s]", want, got, ref.FlagNames(int(res)))
	}
	return cls, trivial, ""
}

type c09Case struct {
	A ArithCase `json:"case"`
}

func c09Run(e *core.Env) {
	k, w := 3, 5
	precs := []uint32{1, 2, 3}
	if e.Thorough() {
		k, w = 4, 7
		precs = []uint32{1, 2, 3, 4, 5, 7}
	}
	xs := Dense(k, w)
	xs = append(xs, Edge(EdgeExps)...)
	xs = append(xs, longOperands()...) // more than 128 digits discarded in one rounding
	// kept coefficients of 20-39 digits with extreme 64-bit word patterns (hi*2^64+lo), one digit to be dropped
	for _, hi := range []*big.Int{big.NewInt(1), pow2(32), pow2(63), new(big.Int).Sub(pow2(64), big.NewInt(1)), new(big.Int).Sub(pow2(64), big.NewInt(7)), bigOf("4000000000000000000")} {
		for _, lo := range []*big.Int{big.NewInt(0), big.NewInt(1), pow2(63), new(big.Int).Sub(pow2(64), big.NewInt(1)), new(big.Int).Sub(pow2(64), big.NewInt(3)), new(big.Int).Sub(pow2(64), big.NewInt(11)), bigOf("14446744073709551615")} {
			c := new(big.Int).Add(new(big.Int).Mul(hi, pow2(64)), lo)
			for _, d := range []int64{3, 5, 9} {
				cd := new(big.Int).Add(new(big.Int).Mul(c, big.NewInt(10)), big.NewInt(d))
				xs = append(xs, FinBig(cd, -1, false), FinBig(cd, -1, true))
			}
		}
	}
	var ctxs []CtxCase
	for _, p := range precs {
		for _, r := range Ranges(p, true) {
			if !e.Thorough() && (r[0] == -3 && r[1] != 9 || r[0] == 0 && r[1] == 9 || r[0] == -100000) {
				continue
			}
			for _, m := range Modes8 {
				ctxs = append(ctxs, MkCtx(p, r[0], r[1], m, 0))
			}
		}
	}
	p0 := MkCtx(0, -100000, 100000, apd.RoundHalfUp, 0)
	report := func(op string, x Operand, q *int32, cc CtxCase, cls string, triv bool, msg string) {
		e.Trans(1)
		e.Outcome(cls, triv)
		if msg != "" || e.WantSample() {
			a := mkCase(op, x, nil, cc)
			a.Exp = q
			if msg != "" {
				e.Fail(cls, "c09", a, a.String()+": "+msg)
			} else {
				e.Sample(a.String() + " => " + cls)
			}
		}
	}
	for ix := range xs {
		if !e.Mine(int64(ix)) {
			continue
		}
		if e.Expired() {
			e.Cap("soft deadline")
			break
		}
		x := xs[ix]
		e.State()
		for _, cc := range ctxs {
			exps := []int32{}
			for q := int32(-9); q <= 7; q++ {
				exps = append(exps, q)
			}
			et := int32(cc.R.Etiny())
			exps = append(exps, et-1, et, cc.C.MaxExponent, cc.C.MaxExponent+1)
			for _, q := range exps {
				q := q
				cls, triv, msg := c09Quantize(x, q, cc)
				report("Quantize", x, &q, cc, cls, triv, msg)
			}
			for _, op := range []string{"RoundToIntegralValue", "RoundToIntegralExact"} {
				cls, triv, msg := c09ToIntegral(op, x, cc)
				report(op, x, nil, cc, cls, triv, msg)
			}
			if cc.C.Rounding == apd.RoundHalfEven || cc.C.Rounding == apd.RoundFloor {
				for _, op := range []string{"Ceil", "Floor"} {
					cls, triv, msg := c09CeilFloor(op, x, cc)
					report(op, x, nil, cc, cls, triv, msg)
				}
			}
		}
		for _, op := range []string{"Ceil", "Floor"} {
			cls, triv, msg := c09CeilFloor(op, x, p0)
			report(op, x, nil, p0, cls, triv, msg)
		}
		// Precision 0: no coefficient has "at most 0 digits", Quantize is invalid for every target exponent
		for _, q := range []int32{-2, 0, 3} {
			q := q
			cls, triv, msg := c09Quantize(x, q, p0)
			report("Quantize", x, &q, p0, cls+"-p0", triv, msg)
		}
	}
	// word-boundary precisions: EDGE coefficients (around 10^17..10^20, 10^37..10^39, 2^63, 2^64, 2^127, 2^128)
	// quantized so that the kept coefficient has 19, 20, 38 or 39 digits
	var hctx []CtxCase
	for _, p := range []uint32{19, 20, 38, 39} {
		for _, m := range Modes8 {
			hctx = append(hctx, MkCtx(p, -6143, 6144, m, 0))
		}
	}
	hx := Edge([]int32{-3, -1, 0, 2})
	for ix := range hx {
		if !e.Mine(int64(ix)) {
			continue
		}
		if n := hx[ix].V.Coef.BitLen(); n < 55 || n > 140 {
			continue
		}
		e.State()
		for _, cc := range hctx {
			for q := int32(-5); q <= 3; q++ {
				q := q
				cls, triv, msg := c09Quantize(hx[ix], q, cc)
				report("Quantize", hx[ix], &q, cc, cls+"-p19..39", triv, msg)
			}
			for _, op := range []string{"RoundToIntegralValue", "RoundToIntegralExact"} {
				cls, triv, msg := c09ToIntegral(op, hx[ix], cc)
				report(op, hx[ix], nil, cc, cls+"-p19..39", triv, msg)
			}
		}
	}
	// NEAR-2^128 family: exact rescaling by 1..19 places whose product crosses 2^128 (or 2^64): Quantize to a
	// smaller exponent and RoundToIntegral of a positive exponent, at precisions that let the product through
	var nctx []CtxCase
	for _, p := range []uint32{39, 40, 45} {
		for _, m := range Modes8 {
			nctx = append(nctx, MkCtx(p, -6143, 6144, m, 0))
		}
	}
	for ni, nk := range Near128() {
		if !e.Mine(int64(ni)) {
			continue
		}
		e.State()
		for _, neg := range []bool{false, true} {
			x := FinBig(nk.A, 0, neg)
			xp := FinBig(nk.A, int32(nk.K), neg)
			for _, cc := range nctx {
				q := int32(-nk.K)
				cls, triv, msg := c09Quantize(x, q, cc)
				report("Quantize", x, &q, cc, cls+"-near2^128", triv, msg)
				for _, op := range []string{"RoundToIntegralValue", "RoundToIntegralExact"} {
					cls, triv, msg := c09ToIntegral(op, xp, cc)
					report(op, xp, nil, cc, cls+"-near2^128", triv, msg)
				}
			}
		}
	}
	// FAR family: operands whose exponent lies up to 200000 below (or above) the target exponent
	// while both are legal on their own - every digit is discarded across more than the package
	// exponent span ("values far below one unit of 10^e")
	var far []Operand
	for _, c := range []int64{0, 1, 5, 7, 123, 999} {
		for _, ex := range []int32{-100000, -99999, -99000, -60000, -50001, 50001, 99000} {
			far = append(far, Fin(c, ex, false), Fin(c, ex, true))
		}
	}
	var fctx []CtxCase
	for _, p := range []uint32{1, 3, 9} {
		for _, m := range Modes8 {
			fctx = append(fctx, MkCtx(p, -100000, 100000, m, 0))
		}
	}
	for ix := range far {
		if !e.Mine(int64(ix)) {
			continue
		}
		x := far[ix]
		e.State()
		for _, cc := range fctx {
			for _, q := range []int32{-100000, -50000, 0, 1, 2, 49999, 50000, 99999, 100000} {
				q := q
				cls, triv, msg := c09Quantize(x, q, cc)
				report("Quantize", x, &q, cc, cls+"-far", triv, msg)
			}
			if x.V.Exp < 0 {
				for _, op := range []string{"RoundToIntegralValue", "RoundToIntegralExact"} {
					cls, triv, msg := c09ToIntegral(op, x, cc)
					report(op, x, nil, cc, cls+"-far", triv, msg)
				}
			}
		}
	}
}

func c09Replay(kind string, raw json.RawMessage) string {
	a, err := decodeArith(raw)
	if err != nil {
		return "bad replay file: " + err.Error()
	}
	x := a.X.Op()
	cc := a.Ctx.Ctx()
	var msg string
	switch a.Op {
	case "Quantize":
		_, _, msg = c09Quantize(x, *a.Exp, cc)
	case "Ceil", "Floor":
		_, _, msg = c09CeilFloor(a.Op, x, cc)
	default:
		_, _, msg = c09ToIntegral(a.Op, x, cc)
	}
	if msg != "" {
		return a.String() + ": " + msg
	}
	return ""
}

func init() {
	core.Register(&core.Prop{
		ID:    "C09",
		Title: "Quantize and RoundToIntegral produce the requested exponent, correctly rounded",
		Rule:  "every (x, target exponent, context, rounding mode) point is executed and compared with an exact integer oracle (x/10^e rounded by the GDA decision table from the exact quotient and remainder); RoundToIntegralValue/Exact, Ceil and Floor on the same x; non-trivial = digits dropped, invalid, or a fractional operand",
		Bounds: func(tier string) string {
			if tier == "thorough" {
				return "x in DENSE(4,7) + EDGE + LONG (129-300 digits); e in [-9,7] + {Etiny-1, Etiny, Emax, Emax+1}; p in {1,2,3,4,5,7} x 11 exponent ranges x 8 modes; Ceil/Floor also at precision 0; EDGE coefficients of 55..140 bits at p in {19,20,38,39} x 8 modes x e in [-5,3]; NEAR-2^128 (exact rescaling by 1..19 places across 2^64 / 2^128, p in {39,40,45}) and FAR (exponents up to 200000 apart) families"
			}
			return "x in DENSE(3,5) + EDGE + LONG (129-300 digits); e in [-9,7] + {Etiny-1, Etiny, Emax, Emax+1}; p in {1,2,3} x 6 exponent ranges x 8 modes; Ceil/Floor also at precision 0; EDGE coefficients of 55..140 bits at p in {19,20,38,39} x 8 modes x e in [-5,3]; NEAR-2^128 (exact rescaling by 1..19 places across 2^64 / 2^128, p in {39,40,45}) and FAR (exponents up to 200000 apart) families"
		},
		Run:    c09Run,
		Replay: c09Replay,
		Assumptions: []string{
			"exact integer oracle on math/big; RoundToIntegral* only for x whose rounded integer has adjusted exponent <= MaxExponent; Ceil/Floor only when integer part and result fit the precision (the property's quantifier)",
		},
	})
}
