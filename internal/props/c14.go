package props

import (
	"encoding/json"
	"fmt"
	"math/big"
	"strings"

	"github.com/cockroachdb/apd/v3"

	"verif/internal/core"
	"verif/internal/ref"
)

// C14: String is the GDA scientific string; the parser accepts exactly the grammar;
// Format applies flags and width the way fmt does.

// textSpace is the Decimal space shared by C13 and C14.
func textSpace(tier string) []Operand {
	var coefs []*big.Int
	k := int64(200)
	if tier == "thorough" {
		k = 1000
	}
	for c := int64(0); c < k; c++ {
		coefs = append(coefs, big.NewInt(c))
	}
	coefs = append(coefs, EdgeCoefs()...)
	L := 20
	if tier == "thorough" {
		L = 45
	}
	coefs = append(coefs, shapeCoefs(L)...)
	var out []Operand
	for _, c := range coefs {
		n := ref.NDig(c)
		var exps []int32
		for ex := -n - 10; ex <= 4; ex++ {
			exps = append(exps, int32(ex))
		}
		if c.BitLen() < 10 || n > 15 {
			exps = append(exps, 100000-int32(n)+1, -100000, 99999-int32(n)+1, -99999, 50, -50, 100000-int32(n), -100000+int32(n))
		}
		for _, ex := range exps {
			if int(ex) > 100000 || int(ex)+n-1 > 100000 || int(ex) < -100000 {
				continue
			}
			out = append(out, FinBig(c, ex, false), FinBig(c, ex, true))
		}
	}
	for ex := int32(-2003); ex <= -1997; ex++ {
		out = append(out, Fin(0, ex, false), Fin(0, ex, true))
	}
	// zeros of every exponent down to the end of the plain-notation exception, and 1 / 7 / 25 at every exponent in
	// [-300, 300]: every length of zero run the plain formatter can be asked to write
	for ex := int32(-2100); ex <= 6; ex++ {
		out = append(out, Fin(0, ex, ex%2 == 0))
	}
	for ex := int32(-300); ex <= 300; ex++ {
		out = append(out, Fin(1, ex, false), Fin(7, ex, true), Fin(25, ex, false))
	}
	for _, ex := range []int32{-100000, -99999, -2500, -30, 5, 30, 99999, 100000} {
		out = append(out, Fin(0, ex, false), Fin(0, ex, true))
	}
	// non-zero coefficients of about 2000 digits around exponent -2000 (where the zero-padding exception of the
	// plain notation ends): the adjusted exponent is still >= -6, so the plain notation is required
	for _, n := range []int{1994, 1995, 1996, 2000, 2005} {
		c := bigOf("1" + strings.Repeat("7", n-1))
		for ex := int32(-2006); ex <= -1994; ex++ {
			out = append(out, FinBig(c, ex, ex%2 == 0))
		}
	}
	for ex := int32(-2004); ex <= -1998; ex++ {
		out = append(out, FinBig(bigOf("12345"+strings.Repeat("0", 2001)), ex, false))
	}
	for _, f := range []int{ref.Inf, ref.NaN, ref.SNaN} {
		out = append(out, DecJ{Form: f}.Op(), DecJ{Form: f, Neg: true}.Op())
	}
	return out
}

type c14Case struct {
	Kind string `json:"kind"` // "string", "parse", "format"
	X    *DecJ  `json:"x,omitempty"`
	S    string `json:"s,omitempty"`
	Fmt  string `json:"fmt,omitempty"`
}

func safeStr(f func() string) (s string, pan string) {
	defer func() {
		if r := recover(); r != nil {
			pan = fmt.Sprint(r)
		}
	}()
	return f(), ""
}

func c14String(x Operand) string {
	want := ref.FormatSci(x.V, 'E')
	got, pan := safeStr(func() string { return x.D.String() })
	if pan != "" {
		return "String panics: " + pan
	}
	if got != want {
		return fmt.Sprintf("String() = %q, to-scientific-string is %q", clip(got), clip(want))
	}
	for _, t := range []struct {
		f    byte
		want string
	}{{'G', want}, {'g', ref.FormatSci(x.V, 'e')}, {'E', ref.FormatE(x.V, 'E')}, {'e', ref.FormatE(x.V, 'e')}} {
		g, pan := safeStr(func() string { return x.D.Text(t.f) })
		if pan != "" {
			return "Text panics: " + pan
		}
		if g != t.want {
			return fmt.Sprintf("Text(%q) = %q, want %q", t.f, clip(g), clip(t.want))
		}
	}
	if abs(x.V.Exp) < 5000 {
		g, pan := safeStr(func() string { return x.D.Text('f') })
		if pan != "" {
			return "Text('f') panics: " + pan
		}
		if w := ref.FormatF(x.V); g != w {
			return fmt.Sprintf("Text('f') = %q, want %q", clip(g), clip(w))
		}
	}
	return ""
}

func clip(s string) string {
	if len(s) > 120 {
		return s[:60] + "…" + s[len(s)-40:]
	}
	return s
}

// c14Parse checks language membership and agreement of the five entry points on one string.
func c14Parse(s string) (cls string, msg string) {
	want, ok := ref.Parse(s)
	cls = "parse/reject"
	if ok {
		cls = "parse/accept"
		switch want.Form {
		case ref.Inf:
			cls += "-inf"
		case ref.NaN, ref.SNaN:
			cls += "-nan"
		}
	}
	type outcome struct {
		d   *apd.Decimal
		err error
		ret *apd.Decimal
		pan string
	}
	run := func(name string, f func(d *apd.Decimal) (*apd.Decimal, error)) outcome {
		var o outcome
		o.d = new(apd.Decimal)
		func() {
			defer func() {
				if r := recover(); r != nil {
					o.pan = fmt.Sprint(r)
				}
			}()
			o.ret, o.err = f(o.d)
		}()
		return o
	}
	entries := []struct {
		name string
		f    func(d *apd.Decimal) (*apd.Decimal, error)
	}{
		{"NewFromString", func(d *apd.Decimal) (*apd.Decimal, error) {
			r, _, err := apd.NewFromString(s)
			if r != nil {
				*d = *r
			}
			return r, err
		}},
		{"SetString", func(d *apd.Decimal) (*apd.Decimal, error) { r, _, err := d.SetString(s); return r, err }},
		{"UnmarshalText", func(d *apd.Decimal) (*apd.Decimal, error) { err := d.UnmarshalText([]byte(s)); return d, err }},
		{"Scan(string)", func(d *apd.Decimal) (*apd.Decimal, error) { err := d.Scan(s); return d, err }},
		{"Scan([]byte)", func(d *apd.Decimal) (*apd.Decimal, error) { err := d.Scan([]byte(s)); return d, err }},
	}
	for i, en := range entries {
		o := run(en.name, en.f)
		if o.pan != "" {
			return cls, en.name + " panics: " + o.pan
		}
		if ok {
			if o.err != nil {
				return cls, fmt.Sprintf("%s rejects a grammatical, representable string: %v (want %s)", en.name, o.err, want)
			}
			got := ToVal(o.d)
			if got.Form != want.Form || got.Neg != want.Neg {
				return cls, fmt.Sprintf("%s = %s, want %s", en.name, got, want)
			}
			if want.Form == ref.Finite && (got.Exp != want.Exp || got.Coef.Cmp(want.Coef) != 0) {
				return cls, fmt.Sprintf("%s = %s, want %s", en.name, got, want)
			}
			if got.Coef.Sign() < 0 {
				return cls, fmt.Sprintf("%s produced a negative coefficient", en.name)
			}
		} else {
			if o.err == nil {
				return cls, fmt.Sprintf("%s accepts a string outside the grammar (or not representable): parsed as %s", en.name, ToVal(o.d))
			}
			if i < 2 && o.ret != nil {
				return cls, fmt.Sprintf("%s returns a partial value %s together with the error %v", en.name, ToVal(o.ret), o.err)
			}
		}
	}
	return cls, ""
}

// c14Format checks Format under one verb/flag/width combination.
func c14Format(x Operand, format string) string {
	got, pan := safeStr(func() string { return fmt.Sprintf(format, x.D) })
	if pan != "" {
		return "Format panics: " + pan
	}
	// parse the format: %[flags][width]verb
	body := format[1:]
	flags := ""
	for len(body) > 0 && strings.ContainsRune("+- 0#", rune(body[0])) {
		flags += body[:1]
		body = body[1:]
	}
	width := -1
	if len(body) > 1 {
		fmt.Sscanf(body[:len(body)-1], "%d", &width)
	}
	verb := body[len(body)-1]
	var text string
	switch verb {
	case 'v', 's', 'G':
		text = ref.FormatSci(x.V, 'E')
	case 'g':
		text = ref.FormatSci(x.V, 'e')
	case 'E', 'e':
		text = ref.FormatE(x.V, verb)
	case 'f', 'F':
		text = ref.FormatF(x.V)
	default:
		// unknown verb: fmt's bad-verb convention
		if !strings.HasPrefix(got, "%!"+string(verb)+"(") || !strings.Contains(got, ref.FormatSci(x.V, 'E')) {
			return fmt.Sprintf("Sprintf(%q) = %q: not fmt's bad-verb form", format, got)
		}
		return ""
	}
	sign := ""
	if strings.HasPrefix(text, "-") {
		sign, text = "-", text[1:]
	} else if strings.Contains(flags, "+") {
		sign = "+"
	} else if strings.Contains(flags, " ") {
		sign = " "
	}
	want := sign + text
	if pad := width - len(want); pad > 0 {
		switch {
		case strings.Contains(flags, "-"):
			want = want + strings.Repeat(" ", pad)
		case strings.Contains(flags, "0") && x.V.Form == ref.Finite:
			want = sign + strings.Repeat("0", pad) + text
		default:
			want = strings.Repeat(" ", pad) + want
		}
	}
	if got != want {
		return fmt.Sprintf("Sprintf(%q) = %q, want %q", format, got, want)
	}
	// differential against fmt's own padding of *big.Int for integer-valued decimals under %v/%s
	if (verb == 'v' || verb == 's') && x.V.Form == ref.Finite && x.V.Exp == 0 && !strings.Contains(flags, "#") {
		b := new(big.Int).Set(x.V.Coef)
		if x.V.Neg {
			b.Neg(b)
		}
		if x.V.Coef.Sign() != 0 || !x.V.Neg {
			bf := "%" + flags
			if width >= 0 {
				bf += fmt.Sprint(width)
			}
			if w := fmt.Sprintf(bf+"d", b); w != got {
				return fmt.Sprintf("Sprintf(%q) = %q but fmt pads the same integer as %q", format, got, w)
			}
		}
	}
	return ""
}

var c14Sigma = []string{"0", "1", "5", "9", "+", "-", ".", "e", "E", "n", "N", "a", "A", "s", "S", "i", "I", "f", "F", "t", "y", "T", "Y", " ", "_", "x", "\x00", "İ", "K"}
var c14Multi = []string{"inf", "Infinity", "NaN", "sNaN", "e+", "e-", "00", "123"}

func c14Seeds() []string {
	return []string{"0", "1", "12", "-7", "+7", "1.5", ".5", "5.", "-0.00", "00.10", "1e5", "1E5", "1e+5", "1e-5", "1.5e10", ".5E-3", "5.e2", "-1.23E+456",
		"inf", "Inf", "INF", "+inf", "-Infinity", "infinity", "NaN", "nan", "-nan", "sNaN", "-snan", "nan123", "sNaN0", "NaN00042",
		"123456789012345678901234567890", "0.000000000000000000001", "9e99999", "1e-99999", "0e0", "-0", "+.0e+0"}
}

func c14Run(e *core.Env) {
	fail := func(cls string, c c14Case, msg string) { e.Fail(cls, c.Kind, c, msg) }
	// (1) String / Text on the Decimal space
	sp := textSpace(e.Tier)
	for i := range sp {
		if !e.Mine(int64(i)) {
			continue
		}
		x := sp[i]
		e.State()
		e.Trans(6)
		cls := "string/sci"
		if x.V.Form != ref.Finite {
			cls = "string/special"
		} else if x.V.Exp <= 0 && x.V.Adj() >= -6 {
			cls = "string/plain"
		} else if x.V.Coef.Sign() == 0 && x.V.Exp < 0 && x.V.Exp >= -2000 {
			cls = "string/zero-exception"
		}
		e.Outcome(cls, false)
		if msg := c14String(x); msg != "" {
			xj := x.J
			fail(cls, c14Case{Kind: "string", X: &xj}, fmt.Sprintf("%s: %s", x.V, msg))
		} else if e.WantSample() {
			e.Sample(fmt.Sprintf("String(%s) = %q", x.V, clip(x.D.String())))
		}
	}
	// (2) Format: verbs x flag subsets x widths on 60 decimals
	var fx []Operand
	for i := 0; i < len(sp); i += len(sp)/50 + 1 {
		fx = append(fx, sp[i])
	}
	fx = append(fx, Fin(0, 0, false), Fin(0, 0, true), Fin(7, 0, false), Fin(7, 0, true), Fin(123, 54, false), Fin(12345, -2, true), Fin(1000000, 0, false),
		DecJ{Form: ref.Inf}.Op(), DecJ{Form: ref.Inf, Neg: true}.Op(), DecJ{Form: ref.NaN}.Op(), DecJ{Form: ref.SNaN, Neg: true}.Op())
	verbs := "vseEfFgGdxqcU"
	widths := []int{-1, 0, 1, 2, 3, 4, 5, 6, 7, 8, 9, 10, 11, 12, 13, 14, 30}
	nf := int64(0)
	for _, x := range fx {
		if abs(x.V.Exp) > 3000 {
			continue
		}
		for fs := 0; fs < 32; fs++ {
			flags := ""
			for b, ch := range "+ -0#" {
				if fs&(1<<uint(b)) != 0 {
					flags += string(ch)
				}
			}
			nf++
			if !e.Mine(nf) {
				continue
			}
			for _, w := range widths {
				for _, vb := range verbs {
					f := "%" + flags
					if w >= 0 {
						f += fmt.Sprint(w)
					}
					f += string(vb)
					e.Trans(1)
					e.Outcome("format/"+string(vb), false)
					if msg := c14Format(x, f); msg != "" {
						xj := x.J
						fail("format", c14Case{Kind: "format", X: &xj, Fmt: f}, fmt.Sprintf("%s: %s", x.V, msg))
					}
				}
			}
		}
	}
	// (3) parsing: every string of <= L tokens over Sigma
	L := 5
	if e.Thorough() {
		L = 6
	}
	doParse := func(s string) {
		e.Trans(5)
		cls, msg := c14Parse(s)
		e.Outcome(cls, cls == "parse/reject")
		if msg != "" {
			fail(cls, c14Case{Kind: "parse", S: s}, fmt.Sprintf("%q: %s", s, msg))
		} else if cls != "parse/reject" && e.WantSample() {
			e.Sample(fmt.Sprintf("parse %q => %s", s, cls))
		}
	}
	n := len(c14Sigma)
	total := int64(1)
	var idx int64
	for l := 0; l <= L; l++ {
		if l > 0 {
			total *= int64(n)
		}
		for k := int64(0); k < total; k++ {
			idx++
			if !e.Mine(idx) {
				continue
			}
			if idx&0xffff == 0 && e.Expired() {
				e.Cap("soft deadline in token-string sweep")
				l = L + 1
				break
			}
			var sb strings.Builder
			r := k
			for j := 0; j < l; j++ {
				sb.WriteString(c14Sigma[r%int64(n)])
				r /= int64(n)
			}
			e.State()
			doParse(sb.String())
		}
	}
	// (3b) multi-character tokens combined with Sigma to length 3
	toks := append(append([]string{}, c14Sigma...), c14Multi...)
	for a := range toks {
		if !e.Mine(int64(a)) {
			continue
		}
		for b := range toks {
			for c := range toks {
				if a < len(c14Sigma) && b < len(c14Sigma) && c < len(c14Sigma) {
					continue // already covered
				}
				e.State()
				doParse(toks[a] + toks[b] + toks[c])
				if !e.Thorough() {
					continue
				}
				for d := range c14Multi {
					doParse(toks[a] + toks[b] + toks[c] + c14Multi[d])
				}
			}
		}
	}
	// (3c) every single-token insertion, deletion and substitution on the grammatical seeds
	seeds := c14Seeds()
	for si, s := range seeds {
		if !e.Mine(int64(si)) {
			continue
		}
		doParse(s)
		var edits []string
		for p := 0; p <= len(s); p++ {
			for _, t := range c14Sigma {
				edits = append(edits, s[:p]+t+s[p:])
				if p < len(s) {
					edits = append(edits, s[:p]+t+s[p+1:])
				}
			}
			if p < len(s) {
				edits = append(edits, s[:p]+s[p+1:])
			}
		}
		for _, ed := range edits {
			e.State()
			doParse(ed)
		}
		if si%4 == 0 || e.Thorough() {
			// two-edit combinations: a second substitution/insertion on every single edit (bounded per seed)
			for ei, ed := range edits {
				if !e.Thorough() && ei%7 != 0 {
					continue
				}
				for p := 0; p <= len(ed); p += 1 {
					for ti, t := range c14Sigma {
						if !e.Thorough() && ti%3 != 0 {
							continue
						}
						doParse(ed[:p] + t + ed[p:])
					}
				}
			}
		}
	}
	// (3c') every single-BYTE substitution and insertion with all 256 byte values on every seed (control bytes,
	// high bytes and every ASCII character in every position)
	for si, s := range seeds {
		if !e.Mine(int64(si)) {
			continue
		}
		for p := 0; p <= len(s); p++ {
			for b := 0; b < 256; b++ {
				e.State()
				doParse(s[:p] + string([]byte{byte(b)}) + s[p:])
				if p < len(s) {
					doParse(s[:p] + string([]byte{byte(b)}) + s[p+1:])
				}
			}
		}
	}
	// (3d) exponent-limit family
	for ci, co := range []string{"1", "10", "0.1", "0.00001", "123.45", "0", "0.0", "00", "9.99", "99999999999999999999"} {
		if !e.Mine(int64(ci)) {
			continue
		}
		for ex := 99980; ex <= 100020; ex++ {
			for _, sg := range []string{"", "+", "-"} {
				e.State()
				doParse(fmt.Sprintf("%se%s%d", co, sg, ex))
			}
		}
		for _, big := range []string{"2147483647", "2147483648", "-2147483649", "99999999999999999999", "-99999999999999999999", "000000000000000000000000005", "+0", "-0"} {
			doParse(co + "E" + big)
		}
	}
}

func c14Replay(kind string, raw json.RawMessage) string {
	var c c14Case
	if err := json.Unmarshal(raw, &c); err != nil {
		return "bad replay file"
	}
	switch c.Kind {
	case "string":
		return c14String(c.X.Op())
	case "format":
		return c14Format(c.X.Op(), c.Fmt)
	case "parse":
		_, msg := c14Parse(c.S)
		return msg
	}
	return "unknown kind"
}

func init() {
	core.Register(&core.Prop{
		ID:    "C14",
		Title: "String is the GDA scientific string; parsing accepts exactly its grammar",
		Rule:  "String/Text on every Decimal of the text space against an independent to-scientific-string formatter; Format under every verb x flag subset x width against fmt's padding rules; language membership of every token string of length <= L, of multi-token combinations, of all single (and bounded double) edits of grammatical seeds and of the exponent-limit family against a hand-written recogniser, through five entry points; non-trivial = accepted strings and all formatting cases",
		Bounds: func(tier string) string {
			L := 5
			if tier == "thorough" {
				L = 6
			}
			return fmt.Sprintf("text space: %d Decimals (coefficients < 200|1000 + EDGE + SHAPE(20|45), every exponent in [-len-10,4] + package limits, zero window [-2003,-1997], specials); Format: 13 verbs x 32 flag subsets x 17 widths x ~60 Decimals; parsing: all strings of <= %d tokens over a %d-token alphabet, 37^3 combinations with multi-character tokens, all single token edits (+ bounded double edits) and all single-byte insertions/substitutions (256 byte values) of %d seeds, exponent-limit family +-(99980..100020)", len(textSpace(tier)), L, len(c14Sigma), len(c14Seeds()))
		},
		Run:    c14Run,
		Replay: c14Replay,
		Assumptions: []string{
			"NaN payload digits are parsed and ignored (documented by apd); Format's flag/width rule is fmt's: '-' overrides '0', '0' pads only finite values, sign precedes zero padding",
		},
	})
}
