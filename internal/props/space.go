package props

import (
	"math/big"

	"github.com/cockroachdb/apd/v3"
)

// arithSpace is the operand/context product shared by C01, C02, C07 and C20.
type arithSpace struct {
	Xs, Ys []Operand // binary operations run on Xs x Ys
	Us     []Operand // unary operations
	Ctxs   []CtxCase
	// HiUs x HiCtxs: long and 64/128-bit-edge operands at precisions 19..39, where the kept coefficient itself
	// crosses the uint64 and inline (128-bit) boundaries; HiPairs are binary cases for the same contexts.
	HiUs    []Operand
	HiCtxs  []CtxCase
	HiPairs [][2]Operand
	Desc    string
}

// coefficient selection with every rounding selector: ties (…5, …50), just
// below/above half (…49, …51), all-nines carries (9, 99, 999), one followed by
// zeros, and operands longer than the precision.
var selCoefQuick = []int64{0, 1, 2, 3, 4, 5, 6, 7, 8, 9, 10, 11, 14, 15, 16, 19, 20, 24, 25, 26, 44, 45, 46, 49, 50, 51, 54, 55, 56, 94, 95, 96, 99,
	100, 101, 105, 149, 150, 151, 249, 250, 251, 449, 450, 451, 499, 500, 501, 549, 550, 551, 949, 950, 951, 994, 995, 996, 999, 1000, 1001, 1005, 4999, 5000, 5001, 9949, 9950, 9951, 9995, 9999}

var selCoefY = []int64{0, 1, 2, 3, 4, 5, 7, 9, 10, 11, 15, 25, 49, 50, 51, 95, 99, 100, 101, 125, 999}

func opsFrom(coefs []int64, emin, emax int) []Operand {
	var out []Operand
	// simplest first: by exponent distance from 0, then coefficient
	for _, c := range coefs {
		for e := emin; e <= emax; e++ {
			out = append(out, Fin(c, int32(e), false), Fin(c, int32(e), true))
		}
	}
	return out
}

// longOperands is the LONG family: coefficients of 129..300 digits, so that a single rounding discards
// more digits than the 128-entry power-of-ten table holds (tableExp10 then computes into its scratch
// argument), with discarded tails just below, at and just above one half, all-nines carries included.
func longOperands() []Operand {
	var out []Operand
	for _, L := range []int{129, 131, 140, 200, 300} {
		for _, head := range []string{"123456789", "999999999", "100000000"} {
			for _, tail := range []string{"23", "50", "49", "51", "99", "00"} {
				// head + tail[0] + filler... + tail[1]
				fill := byte('3')
				switch tail {
				case "50", "00":
					fill = '0'
				case "49", "99":
					fill = '9'
				case "51":
					fill = '0'
				}
				b := []byte(head)
				b = append(b, tail[0])
				for len(b) < L-1 {
					b = append(b, fill)
				}
				b = append(b, tail[1])
				c := bigOf(string(b))
				out = append(out, FinBig(c, int32(-L+1), false))
				if L == 140 {
					out = append(out, FinBig(c, int32(-L+1), true), FinBig(c, 3, false))
				}
			}
		}
	}
	return out
}

// longPartners are second operands that produce more than 128 discarded digits in binary operations.
func longPartners() []Operand {
	seventy := bigOf("1234567890123456789012345678901234567890123456789012345678901234567891")
	return []Operand{FinBig(seventy, -69, false), FinBig(seventy, -30, true), Fin(1, 150, false), Fin(5, -1, false),
		// partners more than 128 exponent steps away from everything else (exponent gaps beyond the power-of-ten table)
		Fin(1, -200, false), Fin(1, -200, true), Fin(1, -129, false), Fin(3, 200, true), Fin(7, -135, false),
		FinBig(bigOf("9999999999999999999999999999999999999999999999999999999999999999999999"), -70, false)}
}

func buildArithSpace(tier string, seed int64) arithSpace {
	s := buildArithSpace0(tier, seed)
	lo := longOperands()
	s.Us = append(s.Us, lo...)
	for i, o := range lo {
		if i%6 == 0 || tier == "thorough" {
			s.Xs = append(s.Xs, o)
		}
	}
	// WORD-DROP family: 19/20-digit coefficients around 2^63, 2^64, 10^19 and one half of 10^19 at exponents
	// -30..-15, so that under every context of the space exactly 18, 19 or 20 digits (and the counts around
	// them) are discarded at Etiny or by the precision: the discarded part itself crosses the 64-bit boundary
	var wd []Operand
	for _, c := range []*big.Int{pow2(63), new(big.Int).Sub(pow2(63), big.NewInt(1)), new(big.Int).Add(pow2(63), big.NewInt(1)), new(big.Int).Sub(pow2(64), big.NewInt(1)), pow2(64),
		bigOf("9999999999999999999"), bigOf("9500000000000000000"), bigOf("5000000000000000000"), bigOf("5000000000000000001"), bigOf("4999999999999999999"), bigOf("15000000000000000000")} {
		for ex := int32(-30); ex <= -15; ex++ {
			wd = append(wd, FinBig(c, ex, false))
			if ex%3 == 0 {
				wd = append(wd, FinBig(c, ex, true))
			}
		}
	}
	s.Us = append(s.Us, wd...)
	s.Desc += "; WORD-DROP family in U: 11 coefficients of 19-20 digits (2^63, 2^64, 10^19-1, 9.5*10^18, 5*10^18 +-1, 1.5*10^19) x exponents -30..-15"
	s.Xs = append(s.Xs, longPartners()...)
	s.Ys = append(s.Ys, longPartners()...)
	s.Desc += "; LONG family: 129..300-digit coefficients with tails below/at/above one half in U (and a share in X), 70-digit and 1E+150 partners in X and Y"
	s.HiUs = append(append([]Operand{}, lo...), Edge([]int32{-40, -1, 0, 3})...)
	for _, p := range []uint32{19, 20, 21, 34, 38, 39, 128, 129, 130, 200} {
		for _, m := range Modes8 {
			s.HiCtxs = append(s.HiCtxs, MkCtx(p, -6143, 6144, m, 0))
		}
	}
	part := longPartners()
	for i, o := range lo {
		if i%9 == 0 {
			s.HiPairs = append(s.HiPairs, [2]Operand{o, part[0]}, [2]Operand{o, part[3]}, [2]Operand{part[4], o})
		}
	}
	for i, a := range s.HiUs {
		if a.V.Coef.BitLen() >= 60 && a.V.Coef.BitLen() <= 140 && i%5 == 0 {
			s.HiPairs = append(s.HiPairs, [2]Operand{a, Fin(3, 0, false)}, [2]Operand{a, Fin(7, -1, true)}, [2]Operand{Fin(1, 0, false), a})
		}
	}
	for i, nk := range Near128() {
		// upscale of the longer operand by k places across 2^128 / 2^64 (Add/Sub/Rem align the coefficients)
		if i%3 == 0 {
			s.HiPairs = append(s.HiPairs, [2]Operand{FinBig(nk.A, 0, false), Fin(1, int32(-nk.K), i%2 == 1)})
		}
	}
	for _, pr := range [][2]int64{{1, 3}, {2, 3}, {-1, 7}, {1, 6}, {10, -9}, {1, 1024}} {
		s.HiPairs = append(s.HiPairs, [2]Operand{Fin(absI(pr[0]), 0, pr[0] < 0), Fin(absI(pr[1]), 0, pr[1] < 0)})
	}
	s.Desc += "; high-precision block: LONG + EDGE operands (and pairs, incl. 1/3, 2/3, -1/7, 1/6, 10/-9, 1/1024 and coefficients whose alignment by 1..19 places crosses 2^64 / 2^128) at p in {19,20,21,34,38,39} (kept coefficients across the 64- and 128-bit boundaries) and p in {128,129,130,200} (across the 128-entry power-of-ten tables) x 8 modes"
	return s
}

func buildArithSpace0(tier string, seed int64) arithSpace {
	var s arithSpace
	if tier == "thorough" {
		// every coefficient below 1000 (+ the long selection) in the first position
		var cx []int64
		for c := int64(0); c < 1000; c++ {
			cx = append(cx, c)
		}
		for _, c := range selCoefQuick {
			if c >= 1000 {
				cx = append(cx, c)
			}
		}
		// seed-selected extra window of 4-digit coefficients, enumerated completely
		w := (seed % 90) * 100
		for c := 1000 + w; c < 1000+w+100; c++ {
			cx = append(cx, c)
		}
		var cy []int64
		for c := int64(0); c < 30; c++ {
			cy = append(cy, c)
		}
		cy = append(cy, 49, 50, 51, 95, 99, 100, 101, 125, 249, 250, 251, 499, 500, 501, 999, 1000, 9999)
		s.Xs = opsFrom(cx, -3, 3)
		s.Ys = opsFrom(cy, -2, 2)
		s.Us = append(opsFrom(cx, -7, 7), Edge(EdgeExps)...)
		s.Xs = append(s.Xs, Edge([]int32{-40, -1, 0, 1, 40})...)
		for _, p := range []uint32{1, 2, 3, 4} {
			for _, r := range Ranges(p, true) {
				if r[0] == -3 && r[1] != 9 || r[0] == 0 && r[1] == 9 || r[0] == -100000 {
					continue
				}
				for _, m := range Modes8 {
					s.Ctxs = append(s.Ctxs, MkCtx(p, r[0], r[1], m, 0))
				}
			}
			s.Ctxs = append(s.Ctxs, MkCtx(p, -1, int32(p)+2, "", 0), MkCtx(p, -1, int32(p)+2, "bogus", 0), MkCtx(p, -100000, 100000, apd.RoundHalfEven, 0))
		}
		s.Desc = "thorough: X = all coefficients < 1000 + selected/seed-window 4-digit x exp[-3,3] x sign + EDGE; Y = coefficients < 30 + selection x exp[-2,2] x sign; contexts p in 1..4 x 6 exponent ranges x 8 modes + default/unknown mode + package range"
		return s
	}
	s.Xs = opsFrom(selCoefQuick, -3, 3)
	s.Ys = opsFrom(selCoefY, -2, 2)
	s.Us = append(opsFrom(selCoefQuick, -5, 5), Edge([]int32{-129, -40, -1, 0, 1, 40, 129})...)
	// a few EDGE values in the first position as well
	for _, c := range EdgeCoefs() {
		if c.BitLen() >= 60 {
			s.Xs = append(s.Xs, FinBig(c, 0, false), FinBig(c, -1, true))
		}
	}
	for _, p := range []uint32{1, 2, 3} {
		ip := int32(p)
		for _, r := range [][2]int32{{0, ip}, {-1, ip + 2}, {-3, 9}, {-6143, 6144}} {
			for _, m := range Modes8 {
				s.Ctxs = append(s.Ctxs, MkCtx(p, r[0], r[1], m, 0))
			}
		}
		s.Ctxs = append(s.Ctxs, MkCtx(p, -1, ip+2, "", 0), MkCtx(p, -1, ip+2, "bogus", 0))
	}
	s.Desc = "quick: X = 69 selected coefficients (ties, half+-1, all-nines, 1..4 digits) x exp[-3,3] x sign + 64/128-bit EDGE; Y = 21 coefficients x exp[-2,2] x sign; contexts p in {1,2,3} x {(0,p),(-1,p+2),(-3,9),(-6143,6144)} x 8 modes + default + unknown mode"
	return s
}

// limitOperands is the LIMIT family: values at the package exponent limits.
func limitOperands() []Operand {
	var out []Operand
	for _, c := range []int64{0, 1, 9, 10, 99} {
		for _, e := range []int32{-100000, -99999, -99998, 99998, 99999, 100000} {
			if c == 10 && e == 100000 || c == 99 && e == 100000 {
				continue // adjusted exponent beyond the limit: not well-formed
			}
			out = append(out, Fin(c, e, false), Fin(c, e, true))
		}
	}
	// adjusted exponent exactly at the limits
	out = append(out, Fin(99, 99999, false), Fin(10, 99999, true))
	return out
}

var _ = big.NewInt
var _ = apd.New

// wideEdge is the WIDE-EDGE family (round 12): operand pairs whose coefficients together exceed one machine word,
// each with the contexts that place the exact product's adjusted exponent one or two steps inside and outside
// MinExponent / MaxExponent, at precisions just below, at and above the product's digit count.
type wideEdgeCase struct {
	X, Y Operand
	Ctxs []CtxCase
}

func wideEdge() []wideEdgeCase {
	wc := []*big.Int{bigOf("20000000000000"), bigOf("3000000000"), bigOf("99999999999"), bigOf("10000000000000000000"), pow2(64),
		bigOf("123456789012345678901"), bigOf("31622776601683793320"), bigOf("5000000000000")}
	var out []wideEdgeCase
	for ia, a := range wc {
		for ib, b := range wc {
			w := wideEdgeCase{X: FinBig(a, -60, ia%2 == 1), Y: FinBig(b, -63, ib%3 == 1)}
			nd := int32(len(new(big.Int).Mul(a, b).String()))
			adj := -123 + nd - 1
			for _, p := range []uint32{uint32(nd) - 1, uint32(nd), uint32(nd) + 1, 60} {
				for _, m := range []apd.Rounder{apd.RoundHalfEven, apd.RoundDown, apd.RoundCeiling} {
					for dl := int32(-1); dl <= 2; dl++ {
						w.Ctxs = append(w.Ctxs, MkCtx(p, adj+dl, adj+dl+200, m, 0), MkCtx(p, adj-dl-200, adj-dl, m, 0))
					}
				}
			}
			out = append(out, w)
		}
	}
	return out
}
