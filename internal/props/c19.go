package props

import (
	"encoding/json"
	"fmt"
	"math/big"

	"github.com/cockroachdb/apd/v3"

	"verif/internal/core"
	"verif/internal/ref"
)

// C19: Reduce and NumDigits are exact.

type c19Case struct {
	Kind string `json:"kind"` // "numdigits", "reduce", "ctxreduce"
	B    string `json:"b,omitempty"`
	X    *DecJ  `json:"x,omitempty"`
	Dst  *DecJ  `json:"dst,omitempty"`
	Ctx  *CtxJ  `json:"ctx,omitempty"`
}

func c19NumDigits(b *big.Int) string {
	var z apd.BigInt
	z.SetMathBigInt(b)
	var got int64
	pan := ""
	func() {
		defer func() {
			if r := recover(); r != nil {
				pan = fmt.Sprint(r)
			}
		}()
		got = apd.NumDigits(&z)
	}()
	if pan != "" {
		return "NumDigits panics: " + pan
	}
	want := int64(ref.NDig(b))
	if got != want {
		return fmt.Sprintf("NumDigits = %d, want %d", got, want)
	}
	// the Decimal method on |b|
	if b.Sign() >= 0 {
		var d apd.Decimal
		d.Coeff.SetMathBigInt(b)
		if g := d.NumDigits(); g != want {
			return fmt.Sprintf("Decimal.NumDigits = %d, want %d", g, want)
		}
	}
	return ""
}

func trailingZeros(b *big.Int) int {
	if b.Sign() == 0 {
		return 0
	}
	s := b.String()
	n := 0
	for i := len(s) - 1; i >= 0 && s[i] == '0'; i-- {
		n++
	}
	return n
}

// destination pre-states (C06 family, shortened)
func dstStates() []DecJ {
	return []DecJ{
		{},
		{Coef: "7"},
		{Coef: "12345678"},
		{Form: ref.NaN},
		{Form: ref.Inf, Neg: true, Coef: "99998", Exp: 11},
		{Coef: "12345678901234567890123456789012345678901234567890", Exp: -3},
		{Coef: "1", Heap: true},
	}
}

func c19Reduce(x Operand, dst DecJ) string {
	d := dst.Build()
	var n int
	var rp *apd.Decimal
	pan := ""
	func() {
		defer func() {
			if r := recover(); r != nil {
				pan = fmt.Sprint(r)
			}
		}()
		rp, n = d.Reduce(x.D)
	}()
	if pan != "" {
		return "panic: " + pan
	}
	if rp != d {
		return "Reduce did not return its receiver"
	}
	got := ToVal(d)
	if got.Form != ref.Finite || got.Coef.Sign() < 0 {
		return fmt.Sprintf("result %s is not a finite non-negative-coefficient value", got)
	}
	if x.V.Coef.Sign() == 0 {
		if got.Coef.Sign() != 0 || got.Exp != 0 {
			return fmt.Sprintf("Reduce(zero) = %s, want 0E+0", got)
		}
		if n != 0 {
			return fmt.Sprintf("Reduce(zero) removed-zero count = %d, want 0 (depends on the operand only)", n)
		}
		return ""
	}
	tz := trailingZeros(x.V.Coef)
	if ref.Cmp(got, x.V) != 0 || got.Neg != x.V.Neg {
		return fmt.Sprintf("Reduce changed the value: got %s", got)
	}
	if trailingZeros(got.Coef) != 0 {
		return fmt.Sprintf("result %s still has a trailing zero", got)
	}
	if n != tz || got.Exp != x.V.Exp+tz {
		return fmt.Sprintf("count = %d, exponent %d; want count %d, exponent %d", n, got.Exp, tz, x.V.Exp+tz)
	}
	return ""
}

func c19CtxReduce(x Operand, dst DecJ, cc CtxCase) (cls string, msg string) {
	d := dst.Build()
	c := cc.C
	var n int
	var res apd.Condition
	var err error
	pan := ""
	func() {
		defer func() {
			if r := recover(); r != nil {
				pan = fmt.Sprint(r)
			}
		}()
		n, res, err = c.Reduce(d, x.D)
	}()
	if pan != "" {
		return "panic", "panic: " + pan
	}
	// zeros removed = trailing zeros of the operand's coefficient (n1) plus trailing zeros of the
	// coefficient left by rounding the stripped operand (n2); the value is strip(round(x)).
	n1 := trailingZeros(x.V.Coef)
	xs := x.V
	if n1 > 0 {
		xs = ref.Val{Neg: x.V.Neg, Coef: new(big.Int).Quo(x.V.Coef, ref.Pow10(n1)), Exp: x.V.Exp + n1}
	}
	want := ref.Round(ref.FromVal(xs), cc.R)
	cls = "ctxreduce"
	if want.Flags&ref.Inexact != 0 {
		cls += "-inexact"
	}
	if err != nil {
		if isSysErr(res, err) && nearLimit(x.V) {
			return cls + "-syslimit", ""
		}
		return cls, fmt.Sprintf("unexpected error %q", err)
	}
	if want.Unspec {
		return cls + "-unspecified", ""
	}
	got := ToVal(d)
	if want.V.Form == ref.Inf {
		if got.Form != ref.Inf || got.Neg != want.V.Neg {
			return cls + "-overflow", fmt.Sprintf("want %s, got %s", want.V, got)
		}
		return cls + "-overflow", ""
	}
	if got.Form != ref.Finite || got.Coef.Sign() < 0 {
		return cls, fmt.Sprintf("want finite, got %s", got)
	}
	if got.Neg != x.V.Neg {
		return cls, fmt.Sprintf("sign not kept: got %s", got)
	}
	if want.V.Coef.Sign() == 0 {
		cls += "-zero"
		if got.Coef.Sign() != 0 || got.Exp != 0 {
			return cls, fmt.Sprintf("want 0E+0 with the operand's sign, got %s", got)
		}
		if x.V.Coef.Sign() == 0 && n != 0 {
			return cls, fmt.Sprintf("count = %d for a zero operand, want 0", n)
		}
		return cls, ""
	}
	if ref.Cmp(absVal(got), absVal(want.V)) != 0 {
		return cls, fmt.Sprintf("want value %s (rounded operand), got %s", want.V, got)
	}
	if trailingZeros(got.Coef) != 0 {
		return cls, fmt.Sprintf("result %s still has a trailing zero", got)
	}
	n2 := trailingZeros(want.V.Coef)
	if n1+n2 > 0 {
		cls += "-strips"
	}
	if n != n1+n2 || got.Exp != want.V.Exp+n2 {
		return cls, fmt.Sprintf("count = %d, exponent %d; want count %d (%d zeros of the operand + %d of the rounded coefficient %s), exponent %d", n, got.Exp, n1+n2, n1, n2, want.V.Coef, want.V.Exp+n2)
	}
	return cls, ""
}

func c19Run(e *core.Env) {
	failND := func(b *big.Int, msg string) {
		cls := "numdigits"
		if b.Sign() < 0 {
			cls += "-negative"
		}
		if b.BitLen() > 128 {
			cls += "-wide"
		}
		e.Fail(cls, "numdigits", c19Case{Kind: "numdigits", B: b.String()}, "NumDigits("+shortBig(b)+"): "+msg)
	}
	checkND := func(b *big.Int) {
		e.Trans(1)
		msg := c19NumDigits(b)
		if msg != "" {
			failND(b, msg)
		}
		nb := new(big.Int).Neg(b)
		if nb.Sign() != 0 {
			e.Trans(1)
			if msg := c19NumDigits(nb); msg != "" {
				failND(nb, msg)
			}
		}
	}
	// (1) every integer |b| < 2^N
	N := uint(20)
	maxBits := 700
	maxK := 6500 // 10^6500 has 21593 bits: "multi-thousand-bit values" at every decimal-digit boundary
	if e.Thorough() {
		N, maxBits, maxK = 22, 4096, 20000
	}
	lim := int64(1) << N
	stride := int64(e.NShards)
	for v := int64(e.Shard); v < lim; v += stride {
		b := big.NewInt(v)
		e.State()
		checkND(b)
		if v < 3 || v == 1000 || v == 99999 {
			e.Sample(fmt.Sprintf("NumDigits(+-%d)", v))
		}
	}
	e.Outcome("numdigits/dense", false)
	// (2) every bit length: 2^(n-1), 2^n-1 and the power-of-ten boundaries inside
	for n := 1; n <= maxBits; n++ {
		if !e.Mine(int64(n)) {
			continue
		}
		lo := new(big.Int).Lsh(big.NewInt(1), uint(n-1))
		hi := new(big.Int).Sub(new(big.Int).Lsh(big.NewInt(1), uint(n)), big.NewInt(1))
		e.State()
		checkND(lo)
		checkND(hi)
		klo, khi := ref.NDig(lo)-1, ref.NDig(hi)
		for k := klo; k <= khi; k++ {
			p := ref.Pow10(k)
			for _, d := range []int64{-1, 0, 1} {
				b := new(big.Int).Add(p, big.NewInt(d))
				if b.Cmp(lo) >= 0 && b.Cmp(hi) <= 0 {
					checkND(b)
					e.Outcome("numdigits/pow10-boundary", false)
				}
			}
		}
		e.Outcome("numdigits/bitlen-edge", false)
	}
	// (3) 10^k +- {0,1}
	ks := []int{}
	for k := 0; k <= maxK; k++ {
		ks = append(ks, k)
	}
	ks = append(ks, 20000)
	if e.Thorough() {
		ks = append(ks, 99999, 100000)
	}
	for i, k := range ks {
		if !e.Mine(int64(i)) {
			continue
		}
		p := ref.Pow10(k)
		e.State()
		checkND(p)
		checkND(new(big.Int).Sub(p, big.NewInt(1)))
		checkND(new(big.Int).Add(p, big.NewInt(1)))
		e.Outcome("numdigits/pow10", false)
	}
	// (4) Reduce: m * 10^t
	var ms []*big.Int
	mk := int64(1000)
	for m := int64(1); m < mk; m++ {
		if m%10 != 0 {
			ms = append(ms, big.NewInt(m))
		}
	}
	tmax := 45
	var xs []Operand
	u64 := new(big.Int).SetUint64(^uint64(0))
	for t := 0; t <= tmax; t++ {
		pt := ref.Pow10(t)
		// m around floor(2^64/10^t): the uint64-path / big-path edge
		edge := new(big.Int).Quo(u64, pt)
		cand := append([]*big.Int{}, ms...)
		for d := int64(-2); d <= 2; d++ {
			c := new(big.Int).Add(edge, big.NewInt(d))
			if c.Sign() > 0 {
				cand = append(cand, c)
			}
		}
		for i, m := range cand {
			if !e.Thorough() && i%3 != t%3 && i < len(ms) {
				continue
			}
			co := new(big.Int).Mul(m, pt)
			for _, ex := range []int32{-50, -3, 0, 4} {
				xs = append(xs, FinBig(co, ex, false), FinBig(co, ex, true))
			}
		}
	}
	// long runs of trailing zeros (around the 64-, 128- and 256-bit boundaries of the zero count and far beyond)
	for _, t := range []int{46, 63, 64, 65, 66, 70, 100, 127, 128, 129, 130, 200, 255, 256, 257, 300, 1000} {
		pt := ref.Pow10(t)
		for _, m := range []int64{1, 7, 123, 999999999999999999} {
			co := new(big.Int).Mul(big.NewInt(m), pt)
			for _, ex := range []int32{-5, 0, -int32(t)} {
				xs = append(xs, FinBig(co, ex, false), FinBig(co, ex, true))
			}
		}
	}
	for _, ex := range []int32{-2001, -2000, -8, -1, 0, 1, 6, 300} {
		xs = append(xs, Fin(0, ex, false), Fin(0, ex, true))
	}
	dsts := dstStates()
	ctxs := Contexts([]uint32{1, 2, 3, 5}, true, []apd.Rounder{apd.RoundHalfEven, apd.RoundUp, apd.RoundDown})
	ctxs = append(ctxs, MkCtx(0, -100000, 100000, apd.RoundHalfUp, 0))
	// exponent ranges that do not contain exponent 0 (MaxExponent < 0, MinExponent > 0): a zero still reduces to 0E+0
	ctxs = append(ctxs, MkCtx(3, -9, -3, apd.RoundHalfEven, 0), MkCtx(2, -20, -1, apd.RoundUp, 0), MkCtx(5, 2, 9, apd.RoundHalfEven, 0))
	// a precision that keeps hundreds of digits (the second strip of Context.Reduce must not be needed to finish the first)
	ctxs = append(ctxs, MkCtx(400, -6143, 6144, apd.RoundHalfEven, 0))
	for _, p := range []uint32{19, 20, 38, 39} {
		// the coefficient kept by Context.Reduce crosses the 64- and 128-bit boundaries
		ctxs = append(ctxs, MkCtx(p, -6143, 6144, apd.RoundHalfEven, 0), MkCtx(p, -6143, 6144, apd.RoundUp, 0))
	}
	for ix := range xs {
		if !e.Mine(int64(ix)) {
			continue
		}
		if e.Expired() {
			e.Cap("soft deadline in Reduce sweep")
			break
		}
		x := xs[ix]
		e.State()
		for di, dst := range dsts {
			e.Trans(1)
			if msg := c19Reduce(x, dst); msg != "" {
				xj, dj := x.J, dst
				e.Fail("reduce", "reduce", c19Case{Kind: "reduce", X: &xj, Dst: &dj}, fmt.Sprintf("Decimal.Reduce(%s) into destination #%d: %s", x.V, di, msg))
			}
			e.Outcome("reduce", trailingZeros(x.V.Coef) == 0)
		}
		for ci, cc := range ctxs {
			dst := dsts[(ix+ci)%len(dsts)]
			e.Trans(1)
			cls, msg := c19CtxReduce(x, dst, cc)
			e.Outcome(cls, cls == "ctxreduce")
			if msg != "" {
				xj, dj, cj := x.J, dst, cc.J()
				e.Fail(cls, "ctxreduce", c19Case{Kind: "ctxreduce", X: &xj, Dst: &dj, Ctx: &cj}, fmt.Sprintf("Context.Reduce(%s) p=%d emin=%d emax=%d mode=%s: %s", x.V, cc.R.P, cc.R.Emin, cc.R.Emax, cc.R.Mode, msg))
			}
		}
		if e.WantSample() {
			e.Sample(fmt.Sprintf("Reduce(%s) into %d destination pre-states and %d contexts", x.V, len(dsts), len(ctxs)))
		}
	}
}

func shortBig(b *big.Int) string {
	s := b.String()
	if len(s) > 60 {
		return fmt.Sprintf("%s…(%d digits, %d bits)", s[:20], len(s), b.BitLen())
	}
	return s
}

func c19Replay(kind string, raw json.RawMessage) string {
	var c c19Case
	if err := json.Unmarshal(raw, &c); err != nil {
		return "bad replay file"
	}
	switch c.Kind {
	case "numdigits":
		b, _ := new(big.Int).SetString(c.B, 10)
		return c19NumDigits(b)
	case "reduce":
		return c19Reduce(c.X.Op(), *c.Dst)
	case "ctxreduce":
		_, msg := c19CtxReduce(c.X.Op(), *c.Dst, c.Ctx.Ctx())
		return msg
	}
	return "unknown kind"
}

func init() {
	core.Register(&core.Prop{
		ID:    "C19",
		Title: "Reduce and NumDigits are exact",
		Rule:  "NumDigits on every integer of the dense range and on every bit-length / power-of-ten boundary (both signs) against the length of the decimal text; Decimal.Reduce and Context.Reduce on m*10^t for every m, t of the family x destination pre-states x contexts against value equality, no trailing zero, exact zero count; non-trivial = boundary value or an operand with trailing zeros / rounding",
		Bounds: func(tier string) string {
			if tier == "thorough" {
				return "NumDigits: all |b| < 2^22; bit lengths 1..4096 (2^(n-1), 2^n-1, 10^k-1,10^k,10^k+1 inside); 10^k+-{0,1} for every k <= 20000 and k in {99999,100000}; Reduce: m*10^t, m < 1000 not divisible by 10 + m around 2^64/10^t, t = 0..45 and 17 longer runs up to 1000 zeros, 4 exponents, both signs, zeros of 8 exponents x 7 destination pre-states x (p in {1,2,3,5} x 11 ranges x 3 modes + precision 0 + p in {19,20,38,39} x 2 modes + 3 ranges without exponent 0)"
			}
			return "NumDigits: all |b| < 2^20; bit lengths 1..700; 10^k+-{0,1} for every k <= 6500 (21593 bits) and k = 20000; Reduce: every third m*10^t (m < 1000, t = 0..45; 17 longer runs up to 1000 zeros) + 2^64/10^t edges x 7 destination pre-states x contexts (p in {1,2,3,5}, precision 0, p in {19,20,38,39})"
		},
		Run:         c19Run,
		Replay:      c19Replay,
		Assumptions: []string{"the removed-zero count of Context.Reduce is the number of trailing zeros of the operand's coefficient plus those of the coefficient left by rounding the stripped operand; for a zero operand the count is 0"},
	})
}
