package props

import (
	"encoding/json"
	"fmt"
	"math"
	"math/big"
	"strings"

	"github.com/cockroachdb/apd/v3"

	"verif/internal/core"
	"verif/internal/ref"
)

// C17: integer and float conversions and Modf are exact.

type c17Case struct {
	Kind string `json:"kind"` // "int64", "ctor", "float", "modf"
	X    *DecJ  `json:"x,omitempty"`
	I    int64  `json:"i,omitempty"`
	E    int32  `json:"e,omitempty"`
	Mode int    `json:"mode,omitempty"`
}

var (
	minI64 = big.NewInt(math.MinInt64)
	maxI64 = big.NewInt(math.MaxInt64)
)

func c17Int64(x Operand) (cls string, msg string) {
	defer func() {
		if r := recover(); r != nil {
			msg = fmt.Sprintf("panic: %v", r)
		}
	}()
	got, err := x.D.Int64()
	// exact value without building 10^100000: decide by magnitude first
	v := x.V
	if v.Coef.Sign() == 0 {
		if err != nil || got != 0 {
			return "int64/zero", fmt.Sprintf("Int64 of zero = %d, %v", got, err)
		}
		return "int64/zero", ""
	}
	if v.Adj() > 19 {
		if err == nil {
			return "int64/huge", fmt.Sprintf("Int64 = %d for a value of %d digits", got, v.Adj()+1)
		}
		return "int64/huge", ""
	}
	if v.Adj() < 0 {
		if err == nil {
			return "int64/fraction", fmt.Sprintf("Int64 = %d for a value below one", got)
		}
		return "int64/fraction", ""
	}
	r := ref.Rat(v)
	if !r.IsInt() {
		if err == nil {
			return "int64/fraction", fmt.Sprintf("Int64 = %d for a non-integer", got)
		}
		return "int64/fraction", ""
	}
	n := r.Num()
	if n.Cmp(minI64) < 0 || n.Cmp(maxI64) > 0 {
		if err == nil {
			return "int64/out-of-range", fmt.Sprintf("Int64 = %d for %s (wrapped)", got, n)
		}
		return "int64/out-of-range", ""
	}
	cls = "int64/in-range"
	if n.BitLen() >= 62 {
		cls = "int64/near-boundary"
	}
	if err != nil {
		return cls, fmt.Sprintf("Int64 error %v for the in-range integer %s", err, n)
	}
	if got != n.Int64() {
		return cls, fmt.Sprintf("Int64 = %d, want %s", got, n)
	}
	return cls, ""
}

func c17Ctor(i int64, ex int32) (msg string) {
	defer func() {
		if r := recover(); r != nil {
			msg = fmt.Sprintf("panic: %v", r)
		}
	}()
	want := new(big.Rat).SetInt64(i)
	scale := func(r *big.Rat, e int32) *big.Rat {
		if e >= 0 {
			return new(big.Rat).Mul(r, new(big.Rat).SetInt(ref.Pow10(int(e))))
		}
		return new(big.Rat).Quo(r, new(big.Rat).SetInt(ref.Pow10(int(-e))))
	}
	check := func(name string, d *apd.Decimal, w *big.Rat, wantExp int32) string {
		v := ToVal(d)
		if v.Form != ref.Finite || v.Coef.Sign() < 0 {
			return fmt.Sprintf("%s = %s", name, v)
		}
		if ref.Rat(v).Cmp(w) != 0 || v.Exp != int(wantExp) {
			return fmt.Sprintf("%s = %s, want %s with exponent %d", name, v, w.RatString(), wantExp)
		}
		if (i < 0) != v.Neg {
			return fmt.Sprintf("%s sign wrong: %s", name, v)
		}
		return ""
	}
	dirty := func() *apd.Decimal {
		return DecJ{Form: ref.NaN, Neg: true, Coef: "123456789012345678901234567890123456789012345", Exp: 77}.Build()
	}
	if m := check("New", apd.New(i, ex), scale(want, ex), ex); m != "" {
		return m
	}
	d := dirty()
	if m := check("SetFinite", d.SetFinite(i, ex), scale(want, ex), ex); m != "" {
		return m
	}
	d = dirty()
	d.Exponent = 0
	if m := check("SetInt64", d.SetInt64(i), want, 0); m != "" {
		return m
	}
	if m := check("NewWithBigInt", apd.NewWithBigInt(apd.NewBigInt(i), ex), scale(want, ex), ex); m != "" {
		return m
	}
	// int64 -> Decimal -> Int64
	if ex == 0 {
		back, err := apd.New(i, 0).Int64()
		if err != nil || back != i {
			return fmt.Sprintf("New(%d,0).Int64() = %d, %v", i, back, err)
		}
	}
	return ""
}

func c17Float(x Operand) (cls string, msg string) {
	defer func() {
		if r := recover(); r != nil {
			msg = fmt.Sprintf("panic: %v", r)
		}
	}()
	got, _ := x.D.Float64()
	want, exact := ref.Rat(x.V).Float64()
	if x.V.Coef.Sign() == 0 {
		want = 0
	}
	if x.V.Neg && want == 0 {
		want = math.Copysign(0, -1)
	}
	cls = "float/inexact"
	if exact {
		cls = "float/exact"
	}
	if math.IsInf(want, 0) {
		cls = "float/overflow"
	} else if want == 0 && x.V.Coef.Sign() != 0 {
		cls = "float/underflow"
	}
	if math.Float64bits(got) != math.Float64bits(want) {
		return cls, fmt.Sprintf("Float64 = %v (%#x), nearest is %v (%#x)", got, math.Float64bits(got), want, math.Float64bits(want))
	}
	return cls, ""
}

func c17Modf(x Operand, mode int) (msg string) {
	defer func() {
		if r := recover(); r != nil {
			msg = fmt.Sprintf("panic: %v", r)
		}
	}()
	var integ, frac *apd.Decimal
	if mode != 1 {
		integ = new(apd.Decimal)
	}
	if mode != 2 {
		frac = new(apd.Decimal)
	}
	x.D.Modf(integ, frac)
	if nd := ref.NDig(x.V.Coef); x.V.Exp >= 0 || -x.V.Exp > nd {
		// no fractional digits, or nothing but fractional digits: the parts are the operand itself and a zero
		// (decided on the fields; no power of ten is needed, so any int32 exponent can be checked)
		whole := x.V.Exp >= 0
		if integ != nil {
			v := ToVal(integ)
			if v.Form != ref.Finite || v.Neg != x.V.Neg || (whole && (v.Exp != x.V.Exp || v.Coef.Cmp(x.V.Coef) != 0)) || (!whole && (v.Coef.Sign() != 0 || v.Exp < 0)) {
				return fmt.Sprintf("integ = %s, want %s", v, map[bool]string{true: "the operand itself", false: "a zero with the operand's sign and an exponent >= 0"}[whole])
			}
		}
		if frac != nil {
			v := ToVal(frac)
			if v.Form != ref.Finite || v.Neg != x.V.Neg || (!whole && (v.Exp != x.V.Exp || v.Coef.Cmp(x.V.Coef) != 0)) || (whole && v.Coef.Sign() != 0) {
				return fmt.Sprintf("frac = %s, want %s", v, map[bool]string{false: "the operand itself", true: "a zero with the operand's sign"}[whole])
			}
		}
		return ""
	}
	r := ref.Rat(x.V)
	wi := new(big.Int).Quo(r.Num(), r.Denom()) // truncation toward zero
	wf := new(big.Rat).Sub(r, new(big.Rat).SetInt(wi))
	if integ != nil {
		v := ToVal(integ)
		if v.Form != ref.Finite || v.Coef.Sign() < 0 || v.Exp < 0 || v.Neg != x.V.Neg {
			return fmt.Sprintf("integ = %s: want a finite integer with exponent >= 0 carrying the operand's sign", v)
		}
		if ref.Rat(v).Cmp(new(big.Rat).SetInt(wi)) != 0 {
			return fmt.Sprintf("integ = %s, want %s", v, wi)
		}
	}
	if frac != nil {
		v := ToVal(frac)
		if v.Form != ref.Finite || v.Coef.Sign() < 0 || v.Neg != x.V.Neg {
			return fmt.Sprintf("frac = %s: want a finite value carrying the operand's sign", v)
		}
		if ref.Rat(v).Cmp(wf) != 0 {
			return fmt.Sprintf("frac = %s, want %s", v, wf.RatString())
		}
		if new(big.Rat).Abs(ref.Rat(v)).Cmp(big.NewRat(1, 1)) >= 0 {
			return fmt.Sprintf("|frac| = %s >= 1", v)
		}
	}
	return ""
}

func c17Int64Family(tier string) []Operand {
	var out []Operand
	two63 := pow2(63)
	jmax := 25
	if tier != "thorough" {
		jmax = 12
	}
	for k := 0; k <= 19; k++ {
		base := new(big.Int).Quo(two63, ref.Pow10(k))
		for d := int64(-2); d <= 2; d++ {
			c := new(big.Int).Add(base, big.NewInt(d))
			if c.Sign() < 0 {
				continue
			}
			for j := 0; j <= jmax; j++ {
				cj := new(big.Int).Mul(c, ref.Pow10(j))
				// exponents making the value cross +-2^63: value = c * 10^(j+e) should be near c*10^k
				for _, e := range []int{k - j - 1, k - j, k - j + 1, -j, -j - 1} {
					out = append(out, FinBig(cj, int32(e), false), FinBig(cj, int32(e), true))
				}
			}
		}
	}
	// fractional and huge-exponent shapes
	for _, j := range []DecJ{{Coef: "1", Exp: 100000}, {Coef: "1", Exp: 19}, {Coef: "1", Exp: 18}, {Coef: "9", Exp: 18}, {Coef: "92", Exp: 17}, {Coef: "93", Exp: 17}, {Coef: "1", Exp: -100000}, {Coef: "5", Exp: -1},
		{Coef: "10", Exp: -1}, {Coef: "100000000000000000000", Exp: -20}, {Coef: "100000000000000000001", Exp: -20}, {Coef: "0", Exp: 100000}, {Coef: "0", Exp: -100000}, {Coef: "9223372036854775807"}, {Coef: "9223372036854775808"}, {Coef: "9223372036854775809"}} {
		out = append(out, j.Op())
		j.Neg = true
		out = append(out, j.Op())
	}
	out = append(out, Dense(3, 4)...)
	out = append(out, c17WordFamily()...)
	return out
}

// c17WordFamily: coefficients at the 63/64-bit and 10^18..10^20 boundaries (no trailing zeros
// added) at every exponent from -40 to +3: the value is a fraction, a small integer plus a
// fraction, or just beyond int64, with a coefficient that fills one machine word.
func c17WordFamily() []Operand {
	var out []Operand
	var cs []*big.Int
	for _, b := range []*big.Int{pow2(62), pow2(63), pow2(64), ref.Pow10(18), ref.Pow10(19), ref.Pow10(20),
		new(big.Int).Mod(ref.Pow10(20), pow2(64)), new(big.Int).Mod(ref.Pow10(21), pow2(64)), new(big.Int).Mul(big.NewInt(5), ref.Pow10(18))} {
		for d := int64(-2); d <= 2; d++ {
			cs = append(cs, new(big.Int).Add(b, big.NewInt(d)))
		}
	}
	for _, c := range cs {
		for ex := int32(-40); ex <= 3; ex++ {
			out = append(out, FinBig(c, ex, false), FinBig(c, ex, true))
		}
	}
	return out
}

func c17FloatFamily(tier string) []Operand {
	var out []Operand
	exs := []uint64{0, 1, 2, 3, 52, 53, 1000, 1021, 1022, 1023, 1024, 1025, 1075, 1076, 1100, 2000, 2044, 2045, 2046}
	step := uint64(64)
	if tier == "thorough" {
		step = 8
	}
	for ex := uint64(4); ex < 2046; ex += step {
		exs = append(exs, ex)
	}
	mp := mantissaPatterns()
	var ms []uint64
	for i, m := range mp {
		if tier == "thorough" || i%11 == 0 || i < 4 || i > len(mp)-6 {
			ms = append(ms, m)
		}
	}
	exactDec := func(r *big.Rat) (coef *big.Int, exp int) {
		// r = num / 2^k  =>  num * 5^k / 10^k
		den := r.Denom()
		k := den.BitLen() - 1
		coef = new(big.Int).Mul(r.Num(), new(big.Int).Exp(big.NewInt(5), big.NewInt(int64(k)), nil))
		coef.Abs(coef)
		return coef, -k
	}
	for _, ex := range exs {
		for _, m := range ms {
			f := math.Float64frombits(ex<<52 | m)
			if math.IsInf(f, 0) || math.IsNaN(f) {
				continue
			}
			nx := math.Nextafter(f, math.Inf(1))
			rf := new(big.Rat).SetFloat64(f)
			c, e := exactDec(rf)
			out = append(out, FinBig(c, int32(e), false))
			// one unit above and below in an extra digit
			c10 := new(big.Int).Mul(c, big.NewInt(10))
			out = append(out, FinBig(new(big.Int).Add(c10, big.NewInt(1)), int32(e-1), true))
			if c10.Sign() > 0 {
				out = append(out, FinBig(new(big.Int).Sub(c10, big.NewInt(1)), int32(e-1), false))
			}
			if !math.IsInf(nx, 0) {
				mid := new(big.Rat).Add(rf, new(big.Rat).SetFloat64(nx))
				mid.Quo(mid, big.NewRat(2, 1))
				mc, me := exactDec(mid)
				out = append(out, FinBig(mc, int32(me), false), FinBig(mc, int32(me), true))
				mc10 := new(big.Int).Mul(mc, big.NewInt(10))
				out = append(out, FinBig(new(big.Int).Add(mc10, big.NewInt(1)), int32(me-1), false), FinBig(new(big.Int).Sub(mc10, big.NewInt(1)), int32(me-1), false))
			}
			// the shortest representation with 17..19 digit perturbations
			var d apd.Decimal
			d.SetFloat64(f)
			v := ToVal(&d)
			if v.Form == ref.Finite && v.Coef.Sign() != 0 {
				for _, pad := range []int{17, 18, 19} {
					n := ref.NDig(v.Coef)
					if pad <= n {
						continue
					}
					cc := new(big.Int).Mul(v.Coef, ref.Pow10(pad-n))
					ee := int32(v.Exp - (pad - n))
					out = append(out, FinBig(new(big.Int).Add(cc, big.NewInt(1)), ee, false), FinBig(new(big.Int).Sub(cc, big.NewInt(1)), ee, true))
				}
			}
		}
	}
	// overflow and underflow thresholds
	for _, s := range []DecJ{{Coef: "17976931348623157", Exp: 292}, {Coef: "17976931348623158", Exp: 292}, {Coef: "179769313486231580793728971405303415079934132710037826936173778980444968292764750946649017977587207096330286416692887910946555547851940402630657488671505820681908902000708383676273854845817711531764475730270069855571366959622842914819860834936475292719074168444365510704342711559699508093042880177904174497791", Exp: 0},
		{Coef: "179769313486231580793728971405303415079934132710037826936173778980444968292764750946649017977587207096330286416692887910946555547851940402630657488671505820681908902000708383676273854845817711531764475730270069855571366959622842914819860834936475292719074168444365510704342711559699508093042880177904174497792", Exp: 0},
		{Coef: "1", Exp: 309}, {Coef: "1", Exp: 400}, {Coef: "24703282292062327208", Exp: -343}, {Coef: "24703282292062327209", Exp: -343}, {Coef: "247032822920623272", Exp: -341}, {Coef: "1", Exp: -400}, {Coef: "4940656458412465441765687928682213723651", Exp: -363}} {
		out = append(out, s.Op())
		s.Neg = true
		out = append(out, s.Op())
	}
	out = append(out, Dense(3, 4)...)
	// coefficients around 2^53 and 2^54 (the widest integers a float64 holds exactly) x small exponents: where
	// a "multiply an exact integer by an exact power of ten" shortcut would round twice
	for _, base := range []*big.Int{pow2(53), pow2(54), pow2(52), bigOf("9007199254740993"), bigOf("18014398509481983")} {
		for k := int64(-40); k <= 40; k++ {
			c := new(big.Int).Add(base, big.NewInt(k))
			for ex := int32(-25); ex <= 25; ex++ {
				if tier != "thorough" && (ex%3 != 0 && ex != -1 && ex != 1 && ex != 22 && ex != -22 && ex != 23) {
					continue
				}
				out = append(out, FinBig(c, ex, k%2 == 0))
			}
		}
	}
	// coefficients far longer than any float64 needs (strconv keeps 800 mantissa digits on its slow path) at
	// exponents that make the value subnormal, ordinary and tiny; a six-digit exponent
	for _, le := range [][2]int{{800, -1110}, {801, -1111}, {1000, -1310}, {1000, -1000}, {2500, -2400}, {9800, -100000}, {100000, -100000}, {30, -100000}} {
		out = append(out, FinBig(bigOf(strings.Repeat("7", le[0])), int32(le[1]), false), FinBig(bigOf("1"+strings.Repeat("0", le[0]-2)+"1"), int32(le[1]), true))
	}
	return out
}

func c17Run(e *core.Env) {
	fam := c17Int64Family(e.Tier)
	for i := range fam {
		if !e.Mine(int64(i)) {
			continue
		}
		e.State()
		e.Trans(1)
		cls, msg := c17Int64(fam[i])
		e.Outcome(cls, false)
		if msg != "" {
			xj := fam[i].J
			e.Fail(cls, "int64", c17Case{Kind: "int64", X: &xj}, fmt.Sprintf("Int64(%s): %s", fam[i].V, msg))
		} else if e.WantSample() {
			e.Sample(fmt.Sprintf("Int64(%s) => %s", fam[i].V, cls))
		}
	}
	ints := []int64{0, 1, -1, 9, 10, -10, 1 << 31, -(1 << 31), 1<<31 - 1, 1 << 32, 1 << 53, 1<<53 + 1, -(1 << 53), math.MaxInt64, math.MaxInt64 - 1, math.MinInt64, math.MinInt64 + 1, 999999999999999999, 1000000000000000000, -1000000000000000000}
	for k := int64(0); k < 1000; k++ {
		ints = append(ints, k*7919, -k*104729)
	}
	for i, v := range ints {
		if !e.Mine(int64(i)) {
			continue
		}
		for _, ex := range []int32{0, 1, -1, 7, -7, 100000, -100000, 99999} {
			e.State()
			e.Trans(5)
			e.Outcome("ctor", false)
			if msg := c17Ctor(v, ex); msg != "" {
				e.Fail("ctor", "ctor", c17Case{Kind: "ctor", I: v, E: ex}, fmt.Sprintf("constructors(%d, %d): %s", v, ex, msg))
			}
		}
	}
	ff := c17FloatFamily(e.Tier)
	for i := range ff {
		if !e.Mine(int64(i)) {
			continue
		}
		if e.Expired() {
			e.Cap("soft deadline in Float64 sweep")
			break
		}
		e.State()
		e.Trans(1)
		cls, msg := c17Float(ff[i])
		e.Outcome(cls, false)
		if msg != "" {
			xj := ff[i].J
			e.Fail(cls, "float", c17Case{Kind: "float", X: &xj}, fmt.Sprintf("Float64(%s): %s", clip(ff[i].V.String()), msg))
		} else if e.WantSample() {
			e.Sample(fmt.Sprintf("Float64(%s) => %s", clip(ff[i].V.String()), cls))
		}
	}
	k, w := 3, 6
	mf := append(Dense(k, w), Edge(EdgeExps)...)
	mf = append(mf, c17WordFamily()...)
	// coefficients of hundreds of digits with one to three integral digits (a digit count estimated from the bit
	// length is off by one per ~300 digits)
	for _, n := range []int{290, 301, 333, 600, 700, 1000, 2000} {
		for _, lead := range []int{1, 2, 3} {
			mf = append(mf, FinBig(bigOf(strings.Repeat("9876543210", n/10+1)[:n]), int32(-(n-lead)), lead == 2),
				FinBig(bigOf("7"+strings.Repeat("0", n-1)), int32(-(n-lead)), false))
		}
	}
	// exponents at and beyond the package limits, up to the ends of int32 (a Decimal is a plain struct: New(1, math.MinInt32) is a value)
	for _, ex := range []int32{math.MinInt32, math.MinInt32 + 1, -2147483647 + 100000, -100001, -100000, 100000, 100001, math.MaxInt32 - 1, math.MaxInt32} {
		for _, c := range []int64{0, 1, 5, 1234567890123456789} {
			mf = append(mf, Fin(c, ex, false), Fin(c, ex, true))
		}
	}
	for i := range mf {
		if !e.Mine(int64(i)) {
			continue
		}
		e.State()
		for mode := 0; mode < 3; mode++ {
			e.Trans(1)
			if msg := c17Modf(mf[i], mode); msg != "" {
				xj := mf[i].J
				e.Fail("modf", "modf", c17Case{Kind: "modf", X: &xj, Mode: mode}, fmt.Sprintf("Modf(%s) mode %d: %s", mf[i].V, mode, msg))
			}
		}
		cls := "modf/mixed"
		if mf[i].V.Exp >= 0 {
			cls = "modf/integer"
		} else if -mf[i].V.Exp > ref.NDig(mf[i].V.Coef) {
			cls = "modf/fraction-only"
		}
		e.Outcome(cls, false)
	}
}

func c17Replay(kind string, raw json.RawMessage) string {
	var c c17Case
	if err := json.Unmarshal(raw, &c); err != nil {
		return "bad replay file"
	}
	switch c.Kind {
	case "int64":
		_, m := c17Int64(c.X.Op())
		return m
	case "ctor":
		return c17Ctor(c.I, c.E)
	case "float":
		_, m := c17Float(c.X.Op())
		return m
	case "modf":
		return c17Modf(c.X.Op(), c.Mode)
	}
	return "unknown kind"
}

func init() {
	core.Register(&core.Prop{
		ID:    "C17",
		Title: "Integer and float conversions and Modf are exact",
		Rule:  "Int64 on the int64-boundary family (floor(2^63/10^k)+-2 x trailing zeros x crossing exponents x signs) against exact rationals; constructors on the int64 boundary set x exponents; Float64 on exact float values, midpoints between adjacent floats and +-1 unit perturbations against big.Rat nearest-even; Modf on DENSE+EDGE x {both outputs, integ nil, frac nil} against exact truncation",
		Bounds: func(tier string) string {
			return fmt.Sprintf("Int64 family %d values (incl. WORD: 2^62/2^63/2^64/10^18/10^19/10^20 +-2 at every exponent -40..3); constructors 2020 ints x 8 exponents x 4 constructors; Float64 family %d decimals (every %s binary exponent x mantissa patterns: exact value, +-1 in an extra digit, midpoint to the next float +-1, 17-19 digit perturbations, overflow/underflow thresholds); Modf: DENSE(3,6)+EDGE+WORD + exponents at the package limits and at the ends of int32 x 3 output modes", len(c17Int64Family(tier)), len(c17FloatFamily(tier)), map[bool]string{true: "8th", false: "64th"}[tier == "thorough"])
		},
		Run:         c17Run,
		Replay:      c17Replay,
		Assumptions: []string{"big.Rat.Float64 (nearest, ties to even) is the reference for Float64"},
	})
}
