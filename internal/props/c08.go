package props

import (
	"encoding/json"
	"fmt"
	"math/big"

	"github.com/cockroachdb/apd/v3"

	"verif/internal/core"
	"verif/internal/ref"
)

// C08: special values follow the decimal arithmetic rules in every operation.

// expectation kinds
const (
	kSkip  = iota // ordinary finite arithmetic: other properties
	kNaN          // quiet NaN, sign given (signAny if not fixed)
	kInf          // infinity with sign
	kZero         // zero with sign (or any sign)
	kOne          // exactly +1 (or -1 with neg)
	kSameX        // x itself (numerically, sign kept), e.g. Rem(x, Inf)
)

type c08Exp struct {
	kind    int
	neg     bool
	signAny bool
	flags   int // exact among c02Exact
	payload *big.Int
}

func isNaNForm(v ref.Val) bool { return v.Form == ref.NaN || v.Form == ref.SNaN }

// c08Special is R.special: the GDA special-value table per operation.
func c08Special(op string, x, y ref.Val, binary bool, c ref.Ctx) c08Exp {
	// NaN propagation: first sNaN, else first NaN; sign and payload kept
	ops := []ref.Val{x}
	if binary {
		ops = append(ops, y)
	}
	for _, o := range ops {
		if o.Form == ref.SNaN {
			return c08Exp{kind: kNaN, neg: o.Neg, flags: ref.InvalidOperation, payload: o.Coef}
		}
	}
	for _, o := range ops {
		if o.Form == ref.NaN {
			return c08Exp{kind: kNaN, neg: o.Neg, payload: o.Coef}
		}
	}
	xi, yi := x.Form == ref.Inf, binary && y.Form == ref.Inf
	xz, yz := x.IsZero(), binary && y.IsZero()
	invalid := c08Exp{kind: kNaN, signAny: true, flags: ref.InvalidOperation}
	xor := x.Neg != y.Neg
	switch op {
	case "Add", "Sub":
		yn := y.Neg != (op == "Sub")
		switch {
		case xi && yi:
			if x.Neg != yn {
				return invalid
			}
			return c08Exp{kind: kInf, neg: x.Neg}
		case xi:
			return c08Exp{kind: kInf, neg: x.Neg}
		case yi:
			return c08Exp{kind: kInf, neg: yn}
		case xz && yz:
			if x.Neg == yn {
				return c08Exp{kind: kZero, neg: x.Neg}
			}
			return c08Exp{kind: kZero, neg: c.Mode == "floor"}
		}
	case "Mul":
		switch {
		case (xi && yz) || (yi && xz):
			return invalid
		case xi || yi:
			return c08Exp{kind: kInf, neg: xor}
		case xz || yz:
			return c08Exp{kind: kZero, neg: xor}
		}
	case "Quo", "QuoInteger":
		switch {
		case xi && yi:
			return invalid
		case xi:
			return c08Exp{kind: kInf, neg: xor}
		case yi:
			return c08Exp{kind: kZero, neg: xor}
		case yz && xz:
			return c08Exp{kind: kNaN, signAny: true, flags: ref.DivisionUndefined}
		case yz:
			return c08Exp{kind: kInf, neg: xor, flags: ref.DivisionByZero}
		case xz:
			return c08Exp{kind: kZero, neg: xor}
		}
	case "Rem":
		switch {
		case xi:
			return invalid
		case yi:
			return c08Exp{kind: kSameX}
		case yz && xz:
			return c08Exp{kind: kNaN, signAny: true, flags: ref.DivisionUndefined}
		case yz:
			return invalid
		case xz:
			return c08Exp{kind: kZero, neg: x.Neg}
		}
	case "Cmp":
		return c08Exp{kind: kSkip}
	case "Abs":
		if xi {
			return c08Exp{kind: kInf}
		}
		if xz {
			return c08Exp{kind: kZero}
		}
	case "Neg":
		if xi {
			return c08Exp{kind: kInf, neg: !x.Neg}
		}
		if xz {
			return c08Exp{kind: kZero, signAny: true}
		}
	case "Round", "Reduce", "RoundToIntegralValue", "RoundToIntegralExact":
		if xi {
			return c08Exp{kind: kInf, neg: x.Neg}
		}
		if xz {
			return c08Exp{kind: kZero, neg: x.Neg}
		}
	case "Ceil", "Floor":
		if xi {
			return c08Exp{kind: kInf, neg: x.Neg}
		}
		if xz {
			return c08Exp{kind: kZero, signAny: true}
		}
	case "Quantize":
		if xi {
			return invalid
		}
	case "Sqrt":
		switch {
		case xz:
			return c08Exp{kind: kZero, neg: x.Neg}
		case x.Neg:
			return invalid
		case xi:
			return c08Exp{kind: kInf}
		}
	case "Cbrt":
		switch {
		case xz:
			return c08Exp{kind: kZero, neg: x.Neg}
		case xi && x.Neg:
			return c08Exp{kind: kSkip} // not fixed by any property (DESIGN 5a.5)
		case xi:
			return c08Exp{kind: kInf}
		}
	case "Exp":
		switch {
		case xi && x.Neg:
			return c08Exp{kind: kZero}
		case xi:
			return c08Exp{kind: kInf}
		case xz:
			return c08Exp{kind: kOne}
		}
	case "Ln", "Log10":
		switch {
		case xz:
			return c08Exp{kind: kInf, neg: true}
		case x.Neg:
			return invalid
		case xi:
			return c08Exp{kind: kInf}
		}
	case "Pow":
		yIsInt, yOdd := false, false
		if y.Form == ref.Finite {
			r := ref.Rat(y)
			if r.IsInt() {
				yIsInt = true
				yOdd = new(big.Int).And(r.Num(), big.NewInt(1)).Sign() != 0
			}
		}
		negRes := x.Neg && yOdd
		ys := y.Sign()
		switch {
		case xz && ys == 0:
			return invalid
		case ys == 0:
			return c08Exp{kind: kOne}
		case xi:
			if x.Neg && (yi || !yIsInt) {
				return invalid
			}
			if y.Neg {
				return c08Exp{kind: kZero, neg: negRes}
			}
			return c08Exp{kind: kInf, neg: negRes}
		case xz:
			if y.Neg {
				return c08Exp{kind: kInf, neg: negRes}
			}
			return c08Exp{kind: kZero, neg: negRes}
		case x.Neg && (yi || !yIsInt):
			return invalid
		case yi:
			one := ref.Val{Coef: big.NewInt(1)}
			cmp := ref.Cmp(absVal(x), one)
			switch {
			case cmp == 0:
				return c08Exp{kind: kOne}
			case (cmp > 0) != y.Neg:
				return c08Exp{kind: kInf}
			default:
				return c08Exp{kind: kZero}
			}
		}
	}
	return c08Exp{kind: kSkip}
}

// p0Op: operations that are defined with Precision 0 (rounding disabled).
var p0Op = map[string]bool{"Add": true, "Sub": true, "Mul": true, "Abs": true, "Neg": true, "Round": true, "Reduce": true, "Cmp": true}

type c08Case struct {
	A ArithCase `json:"case"`
}

// c08One checks one case with a fresh destination and, for cases with a prescribed special outcome, again
// with the destination aliasing the first and the second operand (the rules hold for in-place calls too).
func c08One(op string, x Operand, y *Operand, qexp int32, cc CtxCase) (cls string, trivial bool, msg string) {
	cls, trivial, msg = c08Alias(op, x, y, qexp, cc, 0)
	if msg != "" || trivial {
		return
	}
	for alias := 1; alias <= 2; alias++ {
		if alias == 2 && y == nil {
			break
		}
		if _, _, m := c08Alias(op, x, y, qexp, cc, alias); m != "" {
			return cls, trivial, fmt.Sprintf("with the destination aliasing operand %d: %s", alias, m)
		}
	}
	return
}

func c08Alias(op string, x Operand, y *Operand, qexp int32, cc CtxCase, alias int) (cls string, trivial bool, msg string) {
	var yv ref.Val
	var yd *apd.Decimal
	if y != nil {
		yv, yd = y.V, y.D
	}
	exp := c08Special(op, x.V, yv, y != nil, cc.R)
	if exp.kind == kSkip {
		return op + "/ordinary", true, ""
	}
	cls = op + "/" + []string{"", "nan", "inf", "zero", "one", "same"}[exp.kind]
	if exp.flags != 0 {
		cls += "-" + ref.FlagNames(exp.flags)
	}
	c := cc.C
	var d0 apd.Decimal
	d, xd := &d0, x.D
	switch alias {
	case 1:
		xd = x.J.Build()
		d = xd
	case 2:
		yd = y.J.Build()
		d = yd
	}
	res, err, pan := callOp(op, &c, d, xd, yd, qexp)
	if pan != "" {
		return cls, false, "panic: " + pan
	}
	if isSysErr(res, err) && nearLimit(x.V, yv) {
		return cls + "/syslimit", false, ""
	}
	got := ToVal(d)
	f := int(res)
	wantFlags := exp.flags
	if exp.kind == kSameX {
		r := ref.Round(ref.FromVal(x.V), cc.R)
		wantFlags = r.Flags
		if r.Unspec {
			return cls + "/unspecified", false, ""
		}
		if !ref.EqualNumeric(got, r.V) {
			return cls, false, fmt.Sprintf("got %s [%s], want x rounded = %s", got, ref.FlagNames(f), r.V)
		}
	}
	if f&c02Exact != wantFlags {
		return cls, false, fmt.Sprintf("flags %s, want exactly %s; result %s", ref.FlagNames(f), ref.FlagNames(wantFlags), got)
	}
	trapped := wantFlags&int(c.Traps) != 0
	if trapped != (err != nil) {
		return cls, false, fmt.Sprintf("error = %v with traps %s and flags %s", err, ref.FlagNames(int(c.Traps)), ref.FlagNames(f))
	}
	switch exp.kind {
	case kNaN:
		if got.Form != ref.NaN {
			return cls, false, fmt.Sprintf("got %s [%s], want a quiet NaN", got, ref.FlagNames(f))
		}
		if !exp.signAny && got.Neg != exp.neg {
			return cls, false, fmt.Sprintf("got %s, NaN sign not propagated", got)
		}
		if exp.payload != nil && got.Coef.Cmp(exp.payload) != 0 {
			return cls, false, fmt.Sprintf("got NaN payload %s, want the propagated operand's %s", got.Coef, exp.payload)
		}
	case kInf:
		if got.Form != ref.Inf || got.Neg != exp.neg {
			return cls, false, fmt.Sprintf("got %s [%s], want %sInfinity", got, ref.FlagNames(f), map[bool]string{true: "-"}[exp.neg])
		}
	case kZero:
		if got.Form != ref.Finite || got.Coef.Sign() != 0 || (!exp.signAny && got.Neg != exp.neg) {
			return cls, false, fmt.Sprintf("got %s [%s], want %s0", got, ref.FlagNames(f), map[bool]string{true: "-"}[exp.neg])
		}
	case kOne:
		one := ref.Val{Coef: big.NewInt(1), Neg: exp.neg}
		if got.Form != ref.Finite || !ref.EqualNumeric(got, one) {
			return cls, false, fmt.Sprintf("got %s [%s], want 1", got, ref.FlagNames(f))
		}
	}
	return cls, false, ""
}

func c08Alphabet() []Operand {
	var out []Operand
	for _, f := range []int{ref.NaN, ref.SNaN} {
		for _, neg := range []bool{false, true} {
			for _, pl := range []string{"0", "7"} {
				out = append(out, DecJ{Form: f, Neg: neg, Coef: pl}.Op())
			}
		}
	}
	for _, neg := range []bool{false, true} {
		out = append(out, DecJ{Form: ref.Inf, Neg: neg}.Op(), DecJ{Form: ref.Inf, Neg: neg, Coef: "99998", Exp: 11}.Op())
		// dirty infinities whose left-over fields read as an odd integer / as a fraction (an overflowed 3.001 * 1 under a
		// range with MaxExponent < 0 leaves exactly this behind): nothing may depend on those fields
		out = append(out, DecJ{Form: ref.Inf, Neg: neg, Coef: "3", Exp: 0}.Op(), DecJ{Form: ref.Inf, Neg: neg, Coef: "3001", Exp: -3}.Op())
		for _, ex := range []int32{-2001, -8, -1, 0, 1, 6, -3, 9, 10} {
			out = append(out, Fin(0, ex, neg))
		}
		// zeros whose coefficient is heap-backed (left behind by in-place cancellation of a >128-bit value)
		out = append(out, DecJ{Coef: "0", Neg: neg, Heap: true}.Op(), DecJ{Coef: "0", Exp: -2, Neg: neg, Heap: true}.Op())
		for _, j := range []DecJ{{Coef: "1"}, {Coef: "5", Exp: -1}, {Coef: "7", Exp: 3}, {Coef: "3"}, {Coef: "4"}, {Coef: "25", Exp: -1}, {Coef: "12345", Exp: -2}, {Coef: "10", Exp: -1}, {Coef: "2"}, {Coef: "99999", Exp: 0}} {
			j.Neg = neg
			out = append(out, j.Op())
		}
	}
	return out
}

func c08Run(e *core.Env) {
	alpha := c08Alphabet()
	var ctxs []CtxCase
	precs := []uint32{1, 3, 9}
	if e.Thorough() {
		precs = []uint32{1, 2, 3, 5, 9, 16}
	}
	for _, p := range precs {
		ip := int32(p)
		for _, r := range [][2]int32{{-1, ip + 2}, {-6143, 6144}} {
			for _, m := range []apd.Rounder{apd.RoundHalfEven, apd.RoundFloor, apd.RoundCeiling} {
				for _, tr := range []apd.Condition{0, apd.InvalidOperation, apd.DefaultTraps} {
					ctxs = append(ctxs, MkCtx(p, r[0], r[1], m, tr))
				}
			}
		}
	}
	// precision 0 (rounding disabled) with the package range and with narrow ranges: a leftover coefficient of
	// an infinity must not be range-checked either
	ctxs = append(ctxs, MkCtx(0, -100000, 100000, apd.RoundHalfUp, 0), MkCtx(0, -1, 5, apd.RoundHalfEven, 0), MkCtx(0, -3, 9, apd.RoundFloor, apd.DefaultTraps), MkCtx(0, -6143, 6144, apd.RoundHalfUp, 0))
	seen := map[string]bool{}
	key := func(v ref.Val) string { return fmt.Sprintf("%d|%v|%s|%d", v.Form, v.Neg, v.Coef, v.Exp) }
	for _, a := range alpha {
		seen[key(a.V)] = true
	}
	var level2 []Operand
	run := func(op string, x Operand, y *Operand, qexp int32, cc CtxCase, collect bool) {
		cls, triv, msg := c08One(op, x, y, qexp, cc)
		e.Trans(1)
		e.Outcome(cls, triv)
		if msg != "" || (!triv && e.WantSample()) {
			a := mkCase(op, x, y, cc)
			if op == "Quantize" {
				q := qexp
				a.Exp = &q
			}
			if msg != "" {
				e.Fail(cls, "c08", a, a.String()+": "+msg)
			} else {
				e.Sample(a.String() + " => " + cls)
			}
		}
		if collect {
			// closure: non-finite or zero results in representations not yet in the alphabet become operands
			var yd *apd.Decimal
			if y != nil {
				yd = y.D
			}
			c := cc.C
			c.Traps = 0
			var d apd.Decimal
			if _, _, pan := callOp(op, &c, &d, x.D, yd, qexp); pan == "" {
				v := ToVal(&d)
				if (v.Form != ref.Finite || v.Coef.Sign() == 0) && v.Coef.Sign() >= 0 && !seen[key(v)] && len(level2) < 400 {
					seen[key(v)] = true
					level2 = append(level2, ToJ(&d).Op())
				}
			}
		}
	}
	sweep := func(xs []Operand, ys []Operand, collect bool, shard bool) {
		for ix := range xs {
			if shard && !e.Mine(int64(ix)) {
				continue
			}
			if e.Expired() {
				e.Cap("soft deadline")
				return
			}
			x := xs[ix]
			e.State()
			for ci, cc := range ctxs {
				col := collect && ci%9 == 0
				for _, op := range AllCtxOps {
					if cc.C.Precision == 0 && !p0Op[op] {
						continue // precision 0 is only defined for these operations
					}
					if binaryOp[op] {
						for iy := range ys {
							if op == "Pow" && cc.C.Precision > 9 {
								continue
							}
							run(op, x, &ys[iy], 0, cc, col)
						}
					} else if op == "Quantize" {
						for _, q := range []int32{-2, 0, 3} {
							run(op, x, nil, q, cc, col)
						}
					} else {
						run(op, x, nil, 0, cc, col)
					}
				}
			}
		}
	}
	// depth 1: every worker enumerates the closure seeds identically (collect on all), but checks only its shard
	sweep(alpha, alpha, false, true)
	// depth 2: results of depth-1 operations (dirty infinities, NaNs carrying operand coefficients, clamped zeros)
	// are collected deterministically by every worker over the whole alphabet with one context per group
	old := e.R
	sweepCollect := func() {
		for ix := range alpha {
			for ci := 0; ci < len(ctxs); ci += 9 {
				cc := ctxs[ci]
				for _, op := range AllCtxOps {
					var d apd.Decimal
					c := cc.C
					c.Traps = 0
					try := func(y *apd.Decimal) {
						if _, _, pan := callOp(op, &c, &d, alpha[ix].D, y, 0); pan == "" {
							v := ToVal(&d)
							if (v.Form != ref.Finite || v.Coef.Sign() == 0) && v.Coef.Sign() >= 0 && !seen[key(v)] && len(level2) < 300 {
								seen[key(v)] = true
								level2 = append(level2, ToJ(&d).Op())
							}
						}
					}
					if binaryOp[op] {
						for iy := range alpha {
							try(alpha[iy].D)
						}
					} else {
						try(nil)
					}
				}
			}
		}
	}
	sweepCollect()
	e.R = old
	e.Note(fmt.Sprintf("closure-level-2-operands=%d", len(level2)))
	if len(level2) > 0 {
		small := []Operand{alpha[0], alpha[2], alpha[8], alpha[9], alpha[10], Fin(1, 0, false), Fin(5, -1, true), Fin(0, 0, true)}
		sweep(level2, append(append([]Operand{}, small...), level2...), false, true)
		sweep(small, level2, false, true)
	}
}

func c08Replay(kind string, raw json.RawMessage) string {
	a, err := decodeArith(raw)
	if err != nil {
		return "bad replay file"
	}
	x := a.X.Op()
	var y *Operand
	if a.Y != nil {
		o := a.Y.Op()
		y = &o
	}
	var q int32
	if a.Exp != nil {
		q = *a.Exp
	}
	_, _, msg := c08One(a.Op, x, y, q, a.Ctx.Ctx())
	if msg != "" {
		return a.String() + ": " + msg
	}
	return ""
}

func init() {
	core.Register(&core.Prop{
		ID:    "C08",
		Title: "Special values follow the decimal arithmetic rules in every operation",
		Rule:  "all 22 Context operations x all operand pairs of the special alphabet (NaN/sNaN x signs x payloads, clean and dirty infinities, signed zeros of 9 exponents, 10 finite values x signs) x contexts x 3 trap sets, compared with the GDA special-value table (result class, sign, propagated payload, exact condition set, error iff trapped); closed to depth 2: special results of depth-1 operations become operands; non-trivial = a case for which the table prescribes a special outcome",
		Bounds: func(tier string) string {
			return fmt.Sprintf("alphabet %d values => %d ordered pairs; contexts: p in {1,3,9} (thorough {1,2,3,5,9,16}) x 2 ranges x {half_even, floor, ceiling} x traps {none, InvalidOperation, default} + precision 0 with the package range and three narrower ranges; closure depth 2 with up to 300 produced representations", len(c08Alphabet()), len(c08Alphabet())*len(c08Alphabet()))
		},
		Run:    c08Run,
		Replay: c08Replay,
		Assumptions: []string{
			"Cbrt(-Infinity) and the sign of Neg/Ceil/Floor of a zero are not fixed by any property and are not asserted (DESIGN 5a)",
			"ordinary finite arithmetic is delegated to C01/C02",
		},
	})
}
