package props

import (
	"encoding/json"
	"fmt"
	"math/big"
	"strings"

	"github.com/cockroachdb/apd/v3"

	"verif/internal/core"
	"verif/internal/ref"
)

// C11: Sqrt is correctly rounded (half-even, whatever the context mode); Cbrt is within one ulp and
// exact on perfect cubes.

// sqrtDoubleRounding is the input-class predicate of the known finding (DESIGN 5, row 20): Sqrt rounds
// a Newton approximation carrying workp+5 digits (workp = max(Precision+1, digits(x), 7)) and then
// rounds it again to Precision digits. The predicate is evaluated on the *exact* root only: it holds when
// the exact root lies within two units of the (workp+5)-th digit of a Precision-digit rounding boundary
// (a midpoint between two adjacent Precision-digit values), i.e. where an error of the approximation in
// its last digits can flip the second rounding.
func sqrtDoubleRounding(x ref.Val, c ref.Ctx) bool {
	if x.Coef.Sign() == 0 {
		return false
	}
	workp := c.P + 1
	if nd := ref.NDig(x.Coef); workp < nd {
		workp = nd
	}
	if workp < 7 {
		workp = 7
	}
	W := workp + 5
	ex := ref.SqrtExact(x, ref.Ctx{P: W + 4, Emin: -1 << 28, Emax: 1 << 28, Mode: "half_even"})
	// keep exactly W+2 leading digits of the root
	n := ref.NDig(ex.N)
	if n < W+2 {
		return false // exact root with few digits: no second rounding involved
	}
	R := new(big.Int).Quo(ex.N, ref.Pow10(n-(W+2)))
	if c.P >= W+2 {
		return false
	}
	M := ref.Pow10(W + 2 - c.P)
	rem := new(big.Int).Mod(R, M)
	half := new(big.Int).Quo(M, big.NewInt(2))
	dist := new(big.Int).Sub(rem, half)
	dist.Abs(dist)
	return dist.Cmp(big.NewInt(200)) <= 0
}

func c11Sqrt(x Operand, cc CtxCase) (cls string, trivial bool, msg string) {
	c := cc.R
	c.Mode = "half_even"
	ex := ref.SqrtExact(x.V, c)
	want := ref.Round(ex, c)
	cls = "Sqrt/inexact"
	if want.Flags&ref.Inexact == 0 {
		cls = "Sqrt/exact"
	}
	if sqrtDoubleRounding(x.V, cc.R) {
		cls = "Sqrt/double-rounding-near-midpoint"
	}
	trivial = cls == "Sqrt/exact"
	var d apd.Decimal
	cx := cc.C
	res, err, pan := callOp("Sqrt", &cx, &d, x.D, nil, 0)
	if pan != "" {
		return cls, trivial, "panic: " + pan
	}
	if err != nil {
		return cls, trivial, fmt.Sprintf("unexpected error %q", err)
	}
	got := ToVal(&d)
	if !ref.EqualNumeric(got, want.V) {
		return cls, trivial, fmt.Sprintf("got %s [%s], exact root %v*10^%d(+) rounds half-even to %s", got, ref.FlagNames(int(res)), ex.N, ex.E, want.V)
	}
	if (int(res)&ref.Inexact != 0) != (want.Flags&ref.Inexact != 0) {
		return cls, trivial, fmt.Sprintf("Inexact=%v but root exactly representable=%v (result %s)", int(res)&ref.Inexact != 0, want.Flags&ref.Inexact == 0, got)
	}
	return cls, trivial, ""
}

// icbrt returns floor(cbrt(n)) for n >= 0.
func icbrt(n *big.Int) *big.Int {
	if n.Sign() == 0 {
		return new(big.Int)
	}
	// Newton from above
	x := new(big.Int).Lsh(big.NewInt(1), uint(n.BitLen()/3+1))
	three := big.NewInt(3)
	for {
		// y = (2x + n/x^2)/3
		x2 := new(big.Int).Mul(x, x)
		y := new(big.Int).Quo(n, x2)
		y.Add(y, new(big.Int).Lsh(x, 1))
		y.Quo(y, three)
		if y.Cmp(x) >= 0 {
			break
		}
		x = y
	}
	for new(big.Int).Exp(x, three, nil).Cmp(n) > 0 {
		x.Sub(x, big.NewInt(1))
	}
	for {
		x1 := new(big.Int).Add(x, big.NewInt(1))
		if new(big.Int).Exp(x1, three, nil).Cmp(n) > 0 {
			break
		}
		x = x1
	}
	return x
}

func c11Cbrt(x Operand, cc CtxCase) (cls string, trivial bool, msg string) {
	var d apd.Decimal
	cx := cc.C
	res, err, pan := callOp("Cbrt", &cx, &d, x.D, nil, 0)
	if pan != "" {
		return "Cbrt/panic", false, "panic: " + pan
	}
	// perfect cube?
	co, ex := new(big.Int).Set(x.V.Coef), x.V.Exp
	for ((ex%3)+3)%3 != 0 {
		co.Mul(co, big.NewInt(10))
		ex--
	}
	root := icbrt(co)
	isCube := new(big.Int).Exp(root, big.NewInt(3), nil).Cmp(co) == 0
	rootVal := ref.Val{Neg: x.V.Neg, Coef: root, Exp: ex / 3}
	// strip trailing zeros to see whether the root fits the precision
	sig := new(big.Int).Set(root)
	for sig.Sign() != 0 && new(big.Int).Mod(sig, big.NewInt(10)).Sign() == 0 {
		sig.Quo(sig, big.NewInt(10))
	}
	cls = "Cbrt/non-cube"
	if isCube {
		cls = "Cbrt/perfect-cube"
		if ref.NDig(sig) > cc.R.P {
			cls = "Cbrt/perfect-cube-root-too-long"
		}
	}
	if err != nil {
		return cls, false, fmt.Sprintf("unexpected error %q", err)
	}
	got := ToVal(&d)
	if got.Form != ref.Finite {
		if rootVal.Coef.Sign() != 0 && (rootVal.Adj() > cc.R.Emax || rootVal.Adj() < cc.R.Emin) {
			return cls + "/out-of-range", false, ""
		}
		return cls, false, fmt.Sprintf("got %s", got)
	}
	if x.V.Coef.Sign() == 0 {
		if got.Coef.Sign() != 0 {
			return cls, false, fmt.Sprintf("Cbrt(0) = %s", got)
		}
		return "Cbrt/zero", true, ""
	}
	if got.Neg != x.V.Neg {
		return cls, false, fmt.Sprintf("sign: got %s", got)
	}
	if cls == "Cbrt/perfect-cube" && rootVal.Adj() >= cc.R.Emin && rootVal.Adj() <= cc.R.Emax {
		if ref.Cmp(absVal(got), absVal(rootVal)) != 0 {
			return cls, false, fmt.Sprintf("perfect cube: got %s, exact root %s", got, rootVal)
		}
		if int(res)&ref.Inexact != 0 {
			return cls, false, fmt.Sprintf("perfect cube whose root fits the precision reported Inexact (result %s [%s])", got, ref.FlagNames(int(res)))
		}
		return cls, false, ""
	}
	if int(res)&(ref.Subnormal|ref.Overflow) != 0 {
		return cls + "/subnormal", false, ""
	}
	// within one ulp: (r-ulp)^3 <= |x| <= (r+ulp)^3, ulp = unit of a Precision-digit result
	r := ref.Rat(absVal(got))
	ulpExp := got.Adj() - cc.R.P + 1
	ulp := ref.Rat(ref.Val{Coef: big.NewInt(1), Exp: ulpExp})
	lo := new(big.Rat).Sub(r, ulp)
	hi := new(big.Rat).Add(r, ulp)
	ax := ref.Rat(absVal(x.V))
	cube := func(q *big.Rat) *big.Rat { t := new(big.Rat).Mul(q, q); return t.Mul(t, q) }
	if lo.Sign() > 0 && cube(lo).Cmp(ax) > 0 || cube(hi).Cmp(ax) < 0 {
		return cls, false, fmt.Sprintf("got %s, more than one ulp (10^%d) from the exact cube root", got, ulpExp)
	}
	return cls, false, ""
}

type c11Case struct {
	A ArithCase `json:"case"`
}

func c11Run(e *core.Env) {
	report := func(op string, x Operand, cc CtxCase, cls string, triv bool, msg string) {
		e.Trans(1)
		e.Outcome(cls, triv)
		if msg != "" || e.WantSample() {
			a := mkCase(op, x, nil, cc)
			if msg != "" {
				// the violation class is the input class without the family label appended for the histogram
				fc := cls
				for _, suf := range []string{"/near-square-64bit", "/perfect-square", "/trailing-zeros"} {
					fc = strings.TrimSuffix(fc, suf)
				}
				e.Fail(fc, "c11", a, a.String()+": "+msg)
			} else {
				e.Sample(a.String() + " => " + cls)
			}
		}
	}
	pmax := uint32(2)
	if e.Thorough() {
		pmax = 3
	}
	// (a) every coefficient below 10^(2p+2), both exponent parities
	idx := int64(0)
	for p := uint32(1); p <= pmax; p++ {
		lim := int64(1)
		for i := uint32(0); i < 2*p+2; i++ {
			lim *= 10
		}
		ctxs := []CtxCase{MkCtx(p, -6143, 6144, apd.RoundHalfEven, 0)}
		for c := int64(0); c < lim; c++ {
			idx++
			if !e.Mine(idx) {
				continue
			}
			if c&0xfff == 0 && e.Expired() {
				e.Cap("soft deadline in dense sweep")
				break
			}
			for _, ex := range []int32{0, -1} {
				x := Fin(c, ex, false)
				e.State()
				for _, cc := range ctxs {
					cls, triv, msg := c11Sqrt(x, cc)
					report("Sqrt", x, cc, cls, triv, msg)
				}
			}
		}
	}
	// (b) SHAPE families x parities x p in 1..16, all eight context modes (Sqrt must ignore them), tight range
	L := 10
	if e.Thorough() {
		L = 14
	}
	shapes := shapeCoefs(L)
	for si, c := range shapes {
		if !e.Mine(int64(si)) {
			continue
		}
		if e.Expired() {
			e.Cap("soft deadline in shape sweep")
			break
		}
		n := int32(ref.NDig(c))
		for _, ex := range []int32{-n + 1, -n, 0, 1, -n - 7, -n - 8} {
			x := FinBig(c, ex, false)
			e.State()
			for p := uint32(1); p <= 16; p++ {
				if !e.Thorough() && p > 9 && p != 16 {
					continue
				}
				m := Modes8[(si+int(p))%8]
				cc := MkCtx(p, -6143, 6144, m, 0)
				cls, triv, msg := c11Sqrt(x, cc)
				report("Sqrt", x, cc, cls, triv, msg)
				if p <= 5 {
					ct := MkCtx(p, -3, int32(p)+2, m, 0)
					cls, triv, msg := c11Sqrt(x, ct)
					report("Sqrt", x, ct, cls, triv, msg)
				}
				clsC, trivC, msgC := c11Cbrt(x, cc)
				report("Cbrt", x, cc, clsC, trivC, msgC)
			}
		}
	}
	// (c) midpoint pre-images for p <= 4 (quick 3)
	pm := 3
	if e.Thorough() {
		pm = 4
	}
	for p := 1; p <= pm; p++ {
		lo := ref.Pow10(p - 1).Int64()
		hi := ref.Pow10(p).Int64()
		for m := lo; m < hi; m++ {
			idx++
			if !e.Mine(idx) {
				continue
			}
			mid := big.NewInt(2*m + 1)       // (m + 1/2) * 2
			sq := new(big.Int).Mul(mid, mid) // (2m+1)^2 = 4 (m+1/2)^2
			for _, j := range []int{0, 1, 2, 3, 5, 8, 12, 20} {
				// floor((m+1/2)^2 * 10^(2j)) = floor((2m+1)^2 * 10^(2j) / 4): for large j the operand is the exact
				// square of the midpoint followed by zeros, +-1 in its last digit (operands far longer than 2p+2 digits)
				v := new(big.Int).Mul(sq, ref.Pow10(2*j))
				v.Quo(v, big.NewInt(4))
				for _, dlt := range []int64{-1, 0, 1} {
					c := new(big.Int).Add(v, big.NewInt(dlt))
					for _, ex := range []int32{0, -1, -2} {
						x := FinBig(c, ex-int32(2*j), false)
						cc := MkCtx(uint32(p), -6143, 6144, apd.RoundHalfUp, 0)
						e.State()
						cls, triv, msg := c11Sqrt(x, cc)
						report("Sqrt", x, cc, cls, triv, msg)
					}
				}
			}
		}
	}
	// (c') every perfect square m^2 under all eight context modes: the root is exact, so no mode may matter and
	// Inexact must stay clear
	sqm := int64(2000)
	if e.Thorough() {
		sqm = 10000
	}
	for m := int64(1); m < sqm; m++ {
		idx++
		if !e.Mine(idx) {
			continue
		}
		sq := new(big.Int).Mul(big.NewInt(m), big.NewInt(m))
		nd := uint32(ref.NDig(big.NewInt(m)))
		for _, ex := range []int32{0, -2, -4, 2, -10} {
			x := FinBig(sq, ex, false)
			e.State()
			for _, md := range Modes8 {
				for _, p := range []uint32{nd, nd + 1, 9, 16} {
					cc := MkCtx(p, -6143, 6144, md, 0)
					cls, triv, msg := c11Sqrt(x, cc)
					report("Sqrt", x, cc, cls+"/perfect-square", triv, msg)
				}
			}
		}
	}
	// (c'') coefficients of 17-20 digits (between 2^53 and 2^64) that are perfect squares or one/few units away
	// from one: where a float64 shortcut cannot tell a square from its neighbours
	for bi, base := range []string{"100000000", "100000001", "123456789", "300000000", "316227766", "999999999", "1000000000", "2147483648", "3037000499", "4294967295", "4294967296"} {
		s0 := bigOf(base)
		for k := int64(0); k < 6; k++ {
			idx++
			if !e.Mine(idx) {
				continue
			}
			sr := new(big.Int).Add(s0, big.NewInt(k*7))
			sq := new(big.Int).Mul(sr, sr)
			for _, dl := range []int64{-4, -1, 0, 1, 4} {
				c := new(big.Int).Add(sq, big.NewInt(dl))
				if c.BitLen() > 64 && bi < 9 {
					continue
				}
				for _, ex := range []int32{0, -2, -16, -17, 4} {
					x := FinBig(c, ex, false)
					e.State()
					for _, p := range []uint32{9, 10, 16, 22, 34} {
						cc := MkCtx(p, -6143, 6144, Modes8[int(p+uint32(k))%8], 0)
						cls, triv, msg := c11Sqrt(x, cc)
						report("Sqrt", x, cc, cls+"/near-square-64bit", triv, msg)
					}
				}
			}
		}
	}
	// (d) Cbrt: every m^3 with m < 10^4 (quick 2000), both signs, scaled by 10^(3j); DENSE(4|3) x exponents mod 3
	mm := int64(2000)
	dk := 3
	if e.Thorough() {
		mm, dk = 10000, 4
	}
	for m := int64(1); m < mm; m++ {
		idx++
		if !e.Mine(idx) {
			continue
		}
		cube := new(big.Int).Exp(big.NewInt(m), big.NewInt(3), nil)
		// also with trailing zeros inside the coefficient (8.000000000000000): the cube is then far longer than 3p digits
		if m < 400 || m%7 == 0 {
			for _, kz := range []int{3, 6, 15} {
				cz := new(big.Int).Mul(cube, ref.Pow10(kz))
				x := FinBig(cz, int32(-kz), m%2 == 0)
				e.State()
				for _, p := range []uint32{1, 2, 3, 5, 9} {
					cc := MkCtx(p, -6143, 6144, apd.RoundHalfEven, 0)
					cls, triv, msg := c11Cbrt(x, cc)
					report("Cbrt", x, cc, cls+"/trailing-zeros", triv, msg)
				}
			}
		}
		js := []int32{0, 1, -2}
		if m < 300 || m%13 == 0 {
			// cubes of large and small magnitude (adjusted exponents +-33 ... +-3000)
			js = append(js, 11, -12, 100, -101, 1000)
		}
		if m == 2 || m == 3 || m == 11 || m == 999 {
			// magnitudes in the outer quarter of the exponent range (intermediate products of the iteration are ~|x|^(4/3))
			js = append(js, 26000, -26000, 30000, -30000)
		}
		for _, j := range js {
			for _, neg := range []bool{false, true} {
				x := FinBig(cube, 3*j, neg)
				e.State()
				ps := []uint32{1, 2, 3, 4, 5, 9}
				if m%17 == 0 || m < 40 {
					ps = append(ps, 16, 19, 20, 34, 39) // working precisions across the 64- and 128-bit coefficient boundaries
				}
				for _, p := range ps {
					cc := MkCtx(p, -6143, 6144, apd.RoundHalfEven, 0)
					cls, triv, msg := c11Cbrt(x, cc)
					report("Cbrt", x, cc, cls, triv, msg)
				}
			}
		}
	}
	dn := Dense(dk, 0)
	for i, o := range dn {
		if !e.Mine(int64(i)) {
			continue
		}
		if e.Expired() {
			e.Cap("soft deadline in Cbrt dense sweep")
			break
		}
		for _, ex := range []int32{0, 1, 2, -1, -5} {
			j := o.J
			j.Exp = ex
			x := j.Op()
			e.State()
			for _, p := range []uint32{1, 2, 3, 5} {
				cc := MkCtx(p, -6143, 6144, Modes8[int(p)%8], 0)
				cls, triv, msg := c11Cbrt(x, cc)
				report("Cbrt", x, cc, cls, triv, msg)
			}
		}
	}
}

func c11Replay(kind string, raw json.RawMessage) string {
	a, err := decodeArith(raw)
	if err != nil {
		return "bad replay file"
	}
	var msg string
	if a.Op == "Sqrt" {
		_, _, msg = c11Sqrt(a.X.Op(), a.Ctx.Ctx())
	} else {
		_, _, msg = c11Cbrt(a.X.Op(), a.Ctx.Ctx())
	}
	if msg != "" {
		return a.String() + ": " + msg
	}
	return ""
}

func init() {
	core.Register(&core.Prop{
		ID:    "C11",
		Title: "Sqrt is correctly rounded; Cbrt is within one unit and exact on perfect cubes",
		Rule:  "Sqrt on every coefficient below 10^(2p+2) for small p (both exponent parities), on the sparse SHAPE families for p = 1..16 under all context modes, and on the pre-images of every p-digit midpoint, against big.Int.Sqrt + sticky rounded half-even once (value and Inexact iff not exactly representable); Cbrt on every perfect cube m^3 (both signs, scaled by 10^(3j), j in {0,1,-2} and for a share {11,-12,100,-101,1000}; four cubes at 10^+-78000 and 10^+-90000) and DENSE operands against an exact (r+-ulp)^3 bracket; non-trivial = inexact root / non-trivial cube case",
		Bounds: func(tier string) string {
			if tier == "thorough" {
				return "Sqrt: all coefficients < 10^(2p+2) for p <= 3 x 2 parities; SHAPE(14) x 6 exponents x p = 1..16 x 8 modes (+ tight range for p <= 5); midpoint pre-images for p <= 4 (j in {0,1,2,3,5,8,12,20}, +-1 in the last digit, 3 exponents); every perfect square m^2, m < 10^4, x 5 exponents x 8 modes x 4 precisions; Cbrt: m^3 for m < 10^4 x 3 scalings x signs x 6 precisions, DENSE(4) x 5 exponents x 4 precisions, SHAPE"
			}
			return "Sqrt: all coefficients < 10^(2p+2) for p <= 2 x 2 parities; SHAPE(10) x 6 exponents x p in {1..9,16} x 8 modes (+ tight range for p <= 5); midpoint pre-images for p <= 3; every perfect square m^2, m < 2000, x 5 exponents x 8 modes x 4 precisions; Cbrt: m^3 for m < 2000 x 3 scalings x signs x 6 precisions, DENSE(3) x 5 exponents x 4 precisions, SHAPE"
		},
		Run:         c11Run,
		Replay:      c11Replay,
		Assumptions: []string{"integer-root oracle (big.Int.Sqrt, integer Newton cube root) with a sticky bit; Cbrt's Inexact on non-cubes is not asserted (the property demands it of Sqrt only)"},
	})
}
