package props

import (
	"encoding/json"
	"fmt"
	"math/big"
	"sort"

	"github.com/cockroachdb/apd/v3"

	"verif/internal/core"
	"verif/internal/ref"
)

// C20: the eight rounding modes bracket each other; monotonicity and symmetries.
// Purely relational: the implementation is only compared with itself.

var c20Binary = []string{"Add", "Sub", "Mul", "Quo"}
var c20Unary = []string{"Round", "RoundToIntegralExact"}

type obs struct {
	V     ref.Val
	Flags int
	Err   string
	Pan   string
}

func (o obs) bad() bool { return o.Err != "" || o.Pan != "" }
func (o obs) String() string {
	if o.Pan != "" {
		return "panic(" + o.Pan + ")"
	}
	if o.Err != "" {
		return "error(" + o.Err + ")"
	}
	return fmt.Sprintf("%s [%s]", o.V, ref.FlagNames(o.Flags))
}

func run1(op string, c apd.Context, x, y *apd.Decimal, qexp int32) obs {
	var d apd.Decimal
	res, err, pan := callOp(op, &c, &d, x, y, qexp)
	o := obs{V: ToVal(&d), Flags: int(res), Pan: pan}
	if err != nil {
		o.Err = err.Error()
	}
	return o
}

func isNaNVal(v ref.Val) bool { return v.Form == ref.NaN || v.Form == ref.SNaN }

func absVal(v ref.Val) ref.Val { v.Neg = false; return v }

func negOperand(o Operand) Operand {
	j := o.J
	j.Neg = !j.Neg
	return j.Op()
}

func scaleOperand(o Operand, s int32) Operand {
	j := o.J
	j.Exp += s
	return j.Op()
}

func mirrorMode(m apd.Rounder) apd.Rounder {
	switch m {
	case apd.RoundFloor:
		return apd.RoundCeiling
	case apd.RoundCeiling:
		return apd.RoundFloor
	}
	return m
}

// sameObs compares two observations: identical value representation and flags.
func sameObs(a, b obs) bool {
	if a.bad() || b.bad() {
		return a.Err == b.Err && a.Pan == b.Pan
	}
	if a.Flags != b.Flags || a.V.Form != b.V.Form || a.V.Neg != b.V.Neg {
		return false
	}
	if a.V.Form == ref.Finite {
		return a.V.Exp == b.V.Exp && a.V.Coef.Cmp(b.V.Coef) == 0
	}
	return true
}

// nextUp returns the smallest value representable in the context grid that is
// numerically greater than the finite or infinite v.
func nextUp(v ref.Val, c ref.Ctx) ref.Val {
	etiny := c.Etiny()
	maxFinite := func(neg bool) ref.Val {
		return ref.Val{Neg: neg, Coef: new(big.Int).Sub(ref.Pow10(c.P), big.NewInt(1)), Exp: c.Emax - c.P + 1}
	}
	if v.Form == ref.Inf {
		if v.Neg {
			return maxFinite(true)
		}
		return v
	}
	if v.Coef.Sign() == 0 {
		return ref.Val{Coef: big.NewInt(1), Exp: etiny}
	}
	adj := v.Adj()
	e := adj - c.P + 1
	if e < etiny {
		e = etiny
	}
	if v.Exp < e {
		// not on the grid (cannot happen for a result that fits); fall back to its own exponent
		e = v.Exp
	}
	co := new(big.Int).Mul(v.Coef, ref.Pow10(v.Exp-e))
	if !v.Neg {
		co.Add(co, big.NewInt(1))
		r := ref.Val{Coef: co, Exp: e}
		if r.Adj() > c.Emax {
			return ref.Val{Form: ref.Inf, Coef: new(big.Int)}
		}
		return r
	}
	// negative: magnitude goes down
	if co.Cmp(ref.Pow10(c.P-1)) == 0 && e > etiny {
		return ref.Val{Neg: true, Coef: new(big.Int).Sub(ref.Pow10(c.P), big.NewInt(1)), Exp: e - 1}
	}
	co.Sub(co, big.NewInt(1))
	return ref.Val{Neg: true, Coef: co, Exp: e}
}

func numEq(a, b ref.Val) bool {
	if a.Form == ref.Inf || b.Form == ref.Inf {
		return a.Form == b.Form && a.Neg == b.Neg
	}
	return ref.Cmp(a, b) == 0
}

// c20Modes checks the mode relations for one (op, operands, p, emin, emax).
func c20Modes(op string, x Operand, y *Operand, qexp int32, cc CtxCase) (cls string, msg string) {
	var yd *apd.Decimal
	if y != nil {
		yd = y.D
	}
	var r [8]obs
	for i, m := range Modes8 {
		c := cc.C
		c.Rounding = m
		r[i] = run1(op, c, x.D, yd, qexp)
	}
	const (
		iDown, iHalfUp, iHalfEven, iCeil, iFloor, iHalfDown, iUp, i05 = 0, 1, 2, 3, 4, 5, 6, 7
	)
	anyBad, anyNaN := false, false
	for i := range r {
		if r[i].Pan != "" {
			return op + "/panic", fmt.Sprintf("panic under %s: %s", Modes8[i], r[i].Pan)
		}
		if r[i].bad() {
			anyBad = true
		}
		if isNaNVal(r[i].V) {
			anyNaN = true
		}
	}
	if anyBad {
		// errors with an empty trap set: system limits or precision-0 misuse; not this property
		return op + "/error", ""
	}
	if anyNaN {
		for i := range r {
			if !isNaNVal(r[i].V) {
				return op + "/nan-some", "" // invalid in some modes only (rounding up adds a digit): no order relation
			}
		}
		return op + "/nan-all", ""
	}
	inexactAny, inexactAll := false, true
	for i := range r {
		if r[i].Flags&ref.Inexact != 0 {
			inexactAny = true
		} else {
			inexactAll = false
		}
	}
	desc := func() string {
		s := ""
		for i, m := range Modes8 {
			s += fmt.Sprintf(" %s=%s;", m, r[i])
		}
		return s
	}
	cls = op + "/exact"
	if inexactAny {
		cls = op + "/inexact"
		if r[iUp].Flags&ref.Subnormal != 0 {
			cls += "-subnormal"
		}
		if r[iUp].V.Form == ref.Inf {
			cls += "-overflow"
		}
		if r[iUp].V.Neg {
			cls += "-neg"
		}
	}
	if inexactAny != inexactAll {
		return cls, "Inexact raised under some modes but not others:" + desc()
	}
	for i := range r {
		if ref.Cmp(r[iFloor].V, r[i].V) > 0 {
			return cls, fmt.Sprintf("floor > %s:%s", Modes8[i], desc())
		}
		if ref.Cmp(r[i].V, r[iCeil].V) > 0 {
			return cls, fmt.Sprintf("%s > ceiling:%s", Modes8[i], desc())
		}
		if ref.Cmp(absVal(r[iDown].V), absVal(r[i].V)) > 0 {
			return cls, fmt.Sprintf("|down| > |%s|:%s", Modes8[i], desc())
		}
		if ref.Cmp(absVal(r[i].V), absVal(r[iUp].V)) > 0 {
			return cls, fmt.Sprintf("|%s| > |up|:%s", Modes8[i], desc())
		}
	}
	for _, i := range []int{iHalfUp, iHalfEven, iHalfDown} {
		if !numEq(r[i].V, r[iDown].V) && !numEq(r[i].V, r[iUp].V) {
			return cls, fmt.Sprintf("%s is neither the down nor the up result:%s", Modes8[i], desc())
		}
	}
	if !inexactAny {
		for i := range r {
			if !numEq(r[i].V, r[iDown].V) {
				return cls, "exact result but modes differ:" + desc()
			}
		}
	} else {
		overflow := false
		for i := range r {
			if r[i].Flags&ref.Overflow != 0 {
				overflow = true
			}
		}
		if !overflow && numEq(r[iDown].V, r[iUp].V) {
			return cls, "Inexact without overflow but down == up:" + desc()
		}
	}
	// floor and ceiling are equal or adjacent
	lo, hi := r[iFloor].V, r[iCeil].V
	if !numEq(lo, hi) {
		if op == "Quantize" || op == "RoundToIntegralExact" {
			e := int(qexp)
			if op == "RoundToIntegralExact" {
				e = 0
			}
			if lo.Form != ref.Finite || hi.Form != ref.Finite {
				return cls, "non-finite quantize results differ:" + desc()
			}
			diff := new(big.Rat).Sub(ref.Rat(hi), ref.Rat(lo))
			unit := ref.Rat(ref.Val{Coef: big.NewInt(1), Exp: e})
			if diff.Cmp(unit) != 0 {
				return cls, fmt.Sprintf("floor and ceiling are not one unit of 10^%d apart:%s", e, desc())
			}
		} else {
			nu := nextUp(lo, cc.R)
			if !numEq(nu, hi) {
				return cls, fmt.Sprintf("floor and ceiling are neither equal nor adjacent (next above floor is %s):%s", nu, desc())
			}
		}
	}
	return cls, ""
}

// c20Sym checks commutativity, Sub==Add(-y), the negation mirror and scaling for one mode.
func c20Sym(op string, x Operand, y *Operand, qexp int32, cc CtxCase) (cls, msg string) {
	c := cc.C
	var yd *apd.Decimal
	if y != nil {
		yd = y.D
	}
	base := run1(op, c, x.D, yd, qexp)
	if base.Pan != "" {
		return op + "/panic", "panic: " + base.Pan
	}
	cls = op + "/sym"
	if base.bad() {
		return op + "/error", ""
	}
	if base.Flags&ref.Inexact != 0 {
		cls += "-inexact"
	}
	if op == "Add" || op == "Mul" {
		sw := run1(op, c, yd, x.D, qexp)
		if !sameObs(base, sw) {
			return cls, fmt.Sprintf("not commutative: %s vs swapped %s", base, sw)
		}
	}
	if op == "Sub" {
		ny := negOperand(*y)
		ad := run1("Add", c, x.D, ny.D, 0)
		if !sameObs(base, ad) {
			return cls, fmt.Sprintf("Sub(x,y)=%s but Add(x,-y)=%s", base, ad)
		}
	}
	// negation mirror
	{
		mc := c
		mc.Rounding = mirrorMode(c.Rounding)
		nx := negOperand(x)
		var mo obs
		switch op {
		case "Add", "Sub":
			ny := negOperand(*y)
			mo = run1(op, mc, nx.D, ny.D, qexp)
		case "Mul", "Quo":
			mo = run1(op, mc, nx.D, yd, qexp)
		default:
			mo = run1(op, mc, nx.D, nil, qexp)
		}
		if !mo.bad() {
			want := base
			if !isNaNVal(want.V) {
				want.V.Neg = !want.V.Neg
			}
			zero := want.V.Form == ref.Finite && want.V.Coef.Sign() == 0
			if zero {
				// the sign of an exact zero sum follows the GDA rule, which is not mirror symmetric
				mo.V.Neg = want.V.Neg
			}
			if isNaNVal(want.V) && isNaNVal(mo.V) {
				mo.V.Neg = want.V.Neg
			}
			if !sameObs(want, mo) {
				return cls, fmt.Sprintf("negation mirror: op under %q = %s but on negated operands under %q = %s", c.Rounding, base, mc.Rounding, mo)
			}
		}
	}
	// scaling by powers of ten while both computations stay in the normal range
	normal := func(o obs) bool {
		return !o.bad() && o.V.Form == ref.Finite && o.Flags&(ref.Subnormal|ref.Underflow|ref.Overflow|ref.Clamped) == 0 && o.V.Coef.Sign() != 0 &&
			o.V.Adj() >= int(c.MinExponent) && o.V.Adj() <= int(c.MaxExponent)
	}
	if normal(base) && (op == "Add" || op == "Sub" || op == "Mul" || op == "Quo" || op == "Rem") {
		for _, s := range []int32{1, -1, 2, -2, 5, -5} {
			var so obs
			shift := int(s)
			switch op {
			case "Add", "Sub", "Rem":
				so = run1(op, c, scaleOperand(x, s).D, scaleOperand(*y, s).D, 0)
			case "Mul":
				so = run1(op, c, scaleOperand(x, s).D, yd, 0)
			case "Quo":
				so = run1(op, c, x.D, scaleOperand(*y, s).D, 0)
				shift = -shift
			}
			if !normal(so) {
				continue
			}
			want := base.V
			want.Exp += shift
			if !numEq(want, so.V) || want.Neg != so.V.Neg || (base.Flags&ref.Inexact) != (so.Flags&ref.Inexact) {
				return cls, fmt.Sprintf("scaling by 10^%d: base %s, scaled operands give %s", s, base, so)
			}
		}
	}
	return cls, ""
}

func c20Ctxs(tier string) []CtxCase {
	var out []CtxCase
	precs := []uint32{1, 2, 3}
	if tier == "thorough" {
		precs = []uint32{1, 2, 3, 4, 5}
	}
	for _, p := range precs {
		for _, r := range Ranges(p, true) {
			if tier != "thorough" && (r[0] == -3 && r[1] != 9 || r[0] == 0 && r[1] == 9 || r[0] == -100000) {
				continue
			}
			out = append(out, MkCtx(p, r[0], r[1], apd.RoundHalfEven, 0))
		}
	}
	return out
}

type c20Case struct {
	Kind string    `json:"kind"`
	A    ArithCase `json:"case"`
}

func c20Run(e *core.Env) {
	sp := buildArithSpace(e.Tier, e.Seed)
	ctxs := c20Ctxs(e.Tier)
	report := func(kind, op string, x Operand, y *Operand, qexp int32, cc CtxCase, cls, msg string) {
		e.Outcome(cls, len(cls) > 6 && cls[len(cls)-6:] == "/exact")
		if msg != "" || e.WantSample() {
			a := mkCase(op, x, y, cc)
			if op == "Quantize" {
				q := qexp
				a.Exp = &q
			}
			if msg != "" {
				e.Fail(cls, kind, a, kind+" "+a.String()+": "+msg)
			} else {
				e.Sample(kind + " " + a.String() + " => " + cls)
			}
		}
	}
	symModes := []apd.Rounder{apd.RoundHalfEven, apd.RoundFloor, apd.RoundCeiling, apd.RoundUp, apd.Round05Up}
	for ix := range sp.Xs {
		if !e.Mine(int64(ix)) {
			continue
		}
		if e.Expired() {
			e.Cap("soft deadline in binary sweep")
			break
		}
		x := sp.Xs[ix]
		for iy := range sp.Ys {
			y := sp.Ys[iy]
			e.State()
			for _, cc := range ctxs {
				for _, op := range c20Binary {
					cls, msg := c20Modes(op, x, &y, 0, cc)
					e.TransOnly(8)
					report("modes", op, x, &y, 0, cc, cls, msg)
				}
				// symmetries on a stride of the pair space (each costs up to 9 extra runs)
				if (ix+iy)%3 == 0 {
					for _, m := range symModes {
						c2 := cc
						c2.C.Rounding = m
						c2.R.Mode = string(m)
						for _, op := range []string{"Add", "Sub", "Mul", "Quo", "Rem"} {
							cls, msg := c20Sym(op, x, &y, 0, c2)
							e.TransOnly(9)
							report("sym", op, x, &y, 0, c2, cls, msg)
						}
					}
				}
			}
		}
	}
	w := int32(4)
	if e.Thorough() {
		w = 7
	}
	for iu := range sp.Us {
		if !e.Mine(int64(iu)) {
			continue
		}
		u := sp.Us[iu]
		e.State()
		for _, cc := range ctxs {
			for _, op := range c20Unary {
				cls, msg := c20Modes(op, u, nil, 0, cc)
				e.TransOnly(8)
				report("modes", op, u, nil, 0, cc, cls, msg)
				for _, m := range symModes {
					c2 := cc
					c2.C.Rounding = m
					c2.R.Mode = string(m)
					cls, msg := c20Sym(op, u, nil, 0, c2)
					e.TransOnly(2)
					report("sym", op, u, nil, 0, c2, cls, msg)
				}
			}
			for q := -w; q <= w; q++ {
				cls, msg := c20Modes("Quantize", u, nil, q, cc)
				e.TransOnly(8)
				report("modes", "Quantize", u, nil, q, cc, cls, msg)
			}
		}
	}
	// high-precision block: mode relations of Round and of the pairs at p in {19,...,39}
	seenP := map[uint32]bool{}
	for _, cc := range sp.HiCtxs {
		if seenP[cc.C.Precision] {
			continue // the eight modes are the inner dimension of c20Modes
		}
		seenP[cc.C.Precision] = true
		for iu := range sp.HiUs {
			if !e.Mine(int64(iu)) {
				continue
			}
			cls, msg := c20Modes("Round", sp.HiUs[iu], nil, 0, cc)
			e.TransOnly(8)
			report("modes", "Round", sp.HiUs[iu], nil, 0, cc, cls, msg)
		}
		for ip := range sp.HiPairs {
			if !e.Mine(int64(ip)) {
				continue
			}
			pr := sp.HiPairs[ip]
			for _, op := range c20Binary {
				cls, msg := c20Modes(op, pr[0], &pr[1], 0, cc)
				e.TransOnly(8)
				report("modes", op, pr[0], &pr[1], 0, cc, cls, msg)
			}
		}
	}
	// FAR-ZERO family: a zero more than 100000 exponent steps away from a non-zero operand, in both positions
	// (commutativity, Sub = Add of the negation, negation mirror where both computations deliver a result)
	{
		var nz, zs []Operand
		for _, j := range []DecJ{{Coef: "1", Exp: -60000}, {Coef: "3", Exp: -99999, Neg: true}, {Coef: "25", Exp: -100000}, {Coef: "7", Exp: 99999}} {
			nz = append(nz, j.Op())
		}
		for _, ex := range []int32{60000, 100000, 1, 2, -100000, -50001} {
			zs = append(zs, Fin(0, ex, false), Fin(0, ex, true))
		}
		n := int64(0)
		for _, a := range nz {
			for _, z := range zs {
				n++
				if !e.Mine(n) {
					continue
				}
				for _, m := range []apd.Rounder{apd.RoundHalfEven, apd.RoundFloor} {
					cc := MkCtx(5, -100000, 100000, m, 0)
					for _, op := range []string{"Add", "Sub"} {
						for _, pr := range [][2]Operand{{a, z}, {z, a}} {
							y := pr[1]
							cls, msg := c20Sym(op, pr[0], &y, 0, cc)
							e.TransOnly(2)
							report("sym", op, pr[0], &y, 0, cc, cls+"-far-zero", msg)
						}
					}
				}
			}
		}
	}
	// Round is monotone: adjacent pairs of the value-sorted alphabet (worker 0 .. n by context)
	sorted := append([]Operand{}, sp.Us...)
	sort.SliceStable(sorted, func(i, j int) bool { return ref.Cmp(sorted[i].V, sorted[j].V) < 0 })
	var mctx []CtxCase
	for _, cc := range ctxs {
		for _, m := range Modes8 {
			c2 := cc
			c2.C.Rounding = m
			c2.R.Mode = string(m)
			mctx = append(mctx, c2)
		}
	}
	for ci, cc := range mctx {
		if !e.Mine(int64(ci)) {
			continue
		}
		var prev obs
		var prevOp Operand
		have := false
		for _, u := range sorted {
			o := run1("Round", cc.C, u.D, nil, 0)
			e.TransOnly(1)
			if o.bad() || isNaNVal(o.V) {
				have = false
				continue
			}
			if have && ref.Cmp(prev.V, o.V) > 0 {
				a := mkCase("Round", prevOp, &u, cc)
				e.Fail("Round/monotone", "mono", a, fmt.Sprintf("Round not monotone: x=%s <= y=%s but Round(x)=%s > Round(y)=%s (ctx %+v)", prevOp.V, u.V, prev, o, cc.J()))
			}
			prev, prevOp, have = o, u, true
		}
		e.Outcome("Round/monotone-chain", false)
	}
}

func c20Replay(kind string, raw json.RawMessage) string {
	a, err := decodeArith(raw)
	if err != nil {
		return "bad replay file: " + err.Error()
	}
	x := a.X.Op()
	var y *Operand
	if a.Y != nil {
		o := a.Y.Op()
		y = &o
	}
	var q int32
	if a.Exp != nil {
		q = *a.Exp
	}
	cc := a.Ctx.Ctx()
	var msg string
	switch kind {
	case "modes":
		_, msg = c20Modes(a.Op, x, y, q, cc)
	case "sym":
		_, msg = c20Sym(a.Op, x, y, q, cc)
	case "mono":
		ox := run1("Round", cc.C, x.D, nil, 0)
		oy := run1("Round", cc.C, y.D, nil, 0)
		if !ox.bad() && !oy.bad() && ref.Cmp(x.V, y.V) <= 0 && ref.Cmp(ox.V, oy.V) > 0 {
			msg = fmt.Sprintf("Round not monotone: Round(%s)=%s > Round(%s)=%s", x.V, ox, y.V, oy)
		}
	}
	if msg != "" {
		return kind + " " + a.String() + ": " + msg
	}
	return ""
}

func init() {
	core.Register(&core.Prop{
		ID:    "C20",
		Title: "Rounding modes bracket each other and rounding is monotone",
		Rule:  "every (operation x operands x precision x exponent range) point is executed under all eight rounding modes and under the transformed operand sets (swapped, negated under the mirrored mode, scaled by 10^s), and the executions are compared with each other only (no reference model); non-trivial = at least one mode raised Inexact, or a symmetry sub-check",
		Bounds: func(tier string) string {
			return buildArithSpace(tier, 0).Desc + "; contexts for C20: p x exponent ranges (modes are the inner dimension); symmetries on every third operand pair under {half_even, floor, ceiling, up, 05up}; scaling s in +-{1,2,5}; Round monotonicity over the value-sorted unary alphabet for every context x 8 modes"
		},
		Run:    c20Run,
		Replay: c20Replay,
		Assumptions: []string{
			"no reference model; adjacency of floor/ceiling results is computed from the context's grid (Precision, Etiny, Emax)",
		},
	})
}
