package props

import (
	"encoding/json"
	"fmt"
	"math"
	"math/big"
	"strings"

	"github.com/cockroachdb/apd/v3"

	"verif/internal/core"
	"verif/internal/ref"
)

// C12: Exp, Ln, Log10 and Pow are accurate to one unit in the last place.

// c12True computes the true value of op(x[,y]) as sign and magnitude (big.Float) at the given digits.
// ok=false: outside the function's domain (or a special case handled by C08).
func c12True(op string, x, y ref.Val, digits int) (neg bool, v *big.Float, t float64, ok bool) {
	prec := ref.BitsFor(digits)
	switch op {
	case "Exp":
		if x.Form != ref.Finite || x.Coef.Sign() == 0 || abs(x.Exp) > 400 {
			return false, nil, 0, false
		}
		xf := ref.DecToF(x, prec)
		tf, _ := xf.Float64()
		if math.Abs(tf) > 1e6 {
			return false, nil, tf, false
		}
		return false, ref.ExpF(xf, prec), tf, true
	case "Ln", "Log10":
		if x.Form != ref.Finite || x.Coef.Sign() == 0 || x.Neg {
			return false, nil, 0, false
		}
		one := ref.Val{Coef: big.NewInt(1)}
		if ref.Cmp(x, one) == 0 {
			return false, ref.NewF(prec), 0, true
		}
		l := ref.LnDec(x, prec)
		if op == "Log10" {
			l.Quo(l, ref.Ln10(prec))
		}
		neg = l.Sign() < 0
		return neg, l.Abs(l), 0, true
	case "Pow":
		if x.Form != ref.Finite || y.Form != ref.Finite || x.Coef.Sign() == 0 || y.Coef.Sign() == 0 || abs(y.Exp) > 60 || y.Adj() > 40 {
			return false, nil, 0, false
		}
		yr := ref.Rat(y)
		if x.Neg {
			if !yr.IsInt() {
				return false, nil, 0, false
			}
			neg = new(big.Int).And(yr.Num(), big.NewInt(1)).Sign() != 0
		}
		lx := ref.LnDec(absVal(x), prec)
		tt := ref.NewF(prec).Mul(lx, ref.NewF(prec).SetRat(yr))
		tf, _ := tt.Float64()
		if math.Abs(tf) > 1e6 {
			return neg, nil, tf, false
		}
		return neg, ref.ExpF(tt, prec), tf, true
	}
	return false, nil, 0, false
}

// c12Exact returns the exactly representable result demanded by the property, if any.
func c12Exact(op string, x, y ref.Val, c ref.Ctx) (ref.Val, bool) {
	one := ref.Val{Coef: big.NewInt(1)}
	switch op {
	case "Exp":
		if x.Form == ref.Finite && x.Coef.Sign() == 0 {
			return one, true
		}
	case "Ln", "Log10":
		if x.Form == ref.Finite && !x.Neg && x.Coef.Sign() != 0 && ref.Cmp(x, one) == 0 {
			return ref.Val{Coef: new(big.Int)}, true
		}
	case "Pow":
		if x.Form != ref.Finite || y.Form != ref.Finite || x.Coef.Sign() == 0 {
			return ref.Val{}, false
		}
		if y.Coef.Sign() == 0 {
			return one, true
		}
		yr := ref.Rat(y)
		if !yr.IsInt() || yr.Sign() < 0 || yr.Num().Cmp(big.NewInt(64)) > 0 {
			return ref.Val{}, false
		}
		n := int(yr.Num().Int64())
		co := new(big.Int).Exp(x.Coef, big.NewInt(int64(n)), nil)
		v := ref.Val{Neg: x.Neg && n%2 == 1, Coef: co, Exp: x.Exp * n}
		// exact value fits the precision (after removing trailing zeros) and the exponent range
		sig := new(big.Int).Set(co)
		for sig.Sign() != 0 && new(big.Int).Mod(sig, big.NewInt(10)).Sign() == 0 {
			sig.Quo(sig, big.NewInt(10))
		}
		if n == 1 {
			r := ref.Round(ref.FromVal(x), c)
			if r.Unspec || r.V.Form != ref.Finite {
				return ref.Val{}, false
			}
			return r.V, true
		}
		if ref.NDig(sig) <= c.P && v.Adj() <= c.Emax && v.Adj() >= c.Emin {
			return v, true
		}
	}
	return ref.Val{}, false
}

// c12DirectedNearGrid is the input-class predicate of the second known finding: the context rounds in a
// directed mode and the exact value lies within 5 units of the (Precision+2)-th digit of a value
// representable in Precision digits. The functions round an approximation carrying Precision+2 digits
// with the caller's mode, so an approximation on the other side of that representable value ends up a
// full unit further away (error 1.00x ulp).
func c12DirectedNearGrid(mode string, v *big.Float, p int) bool {
	switch mode {
	case "ceiling", "floor", "up", "down", "05up":
	default:
		return false
	}
	lg := ref.Log10F(v)
	e := int(math.Floor(lg)) - p + 1
	prec := v.Prec()
	s := ref.NewF(prec).Quo(v, ref.Pow10F(e, prec))
	fl := ref.NewF(prec)
	ip, _ := s.Int(nil)
	fl.Sub(s, ref.NewF(prec).SetInt(ip))
	f, _ := fl.Float64()
	return f < 0.05 || f > 0.95
}

// exp early-overflow class (known finding, DESIGN 5 row 14): |argument of the exponential| >= 23000.
func c12EarlyOverflow(op string, t float64, p int) bool {
	return (op == "Exp" || op == "Pow") && math.Abs(t) >= 23*math.Max(float64(p), 1000)
}

func c12One(op string, x Operand, y *Operand, cc CtxCase) (cls string, trivial bool, undecided bool, msg string) {
	var yv ref.Val
	var yd *apd.Decimal
	if y != nil {
		yv, yd = y.V, y.D
	}
	c := cc.C
	var d apd.Decimal
	res, err, pan := callOp(op, &c, &d, x.D, yd, 0)
	if pan != "" {
		return op + "/panic", false, false, "panic: " + pan
	}
	got := ToVal(&d)
	if want, ok := c12Exact(op, x.V, yv, cc.R); ok {
		cls = op + "/exact-by-definition"
		if err != nil {
			return cls, false, false, fmt.Sprintf("error %q on an exactly representable case (want %s)", err, want)
		}
		if got.Form != ref.Finite || ref.Cmp(got, want) != 0 || (want.Coef.Sign() != 0 && got.Neg != want.Neg) {
			return cls, false, false, fmt.Sprintf("got %s [%s], want exactly %s", got, ref.FlagNames(int(res)), want)
		}
		return cls, false, false, ""
	}
	p := cc.R.P
	digits := p + 30
	for attempt := 0; attempt < 3; attempt++ {
		neg, v, t, ok := c12True(op, x.V, yv, digits)
		if !ok {
			return op + "/outside-domain", true, false, ""
		}
		cls = op + "/finite"
		early := c12EarlyOverflow(op, t, p)
		if early {
			cls = op + "/exp-argument>=23000"
		} else if v.Sign() != 0 && c12DirectedNearGrid(cc.R.Mode, v, p) {
			cls = op + "/directed-mode-near-representable"
		}
		base := cls
		prec := v.Prec()
		relErr := ref.NewF(prec).SetMantExp(ref.NewF(prec).SetInt64(1), -(int(prec) - ref.Guard - 24))
		margin := ref.NewF(prec).Mul(v, relErr)
		lg := 0.0
		if v.Sign() != 0 {
			lg = ref.Log10F(v)
		}
		etiny := cc.R.Etiny()
		if err != nil {
			// an error with the empty trap set: legitimate only outside the package range (system limits)
			if lg > 99990 || lg < -99990 || nearLimit(x.V, yv) {
				return cls + "/syslimit", false, false, ""
			}
			return cls, false, false, fmt.Sprintf("error %q with the empty trap set; exact value ~1E%+.0f lies inside the package range", err, lg)
		}
		switch got.Form {
		case ref.Inf:
			cls2 := cls + "/overflow-reported"
			// legitimate iff v * (1 + 10^(1-p)) >= 10^(Emax+1)
			if lg+math.Pow(10, float64(1-p)) >= float64(cc.R.Emax)+1-1e-9 {
				return cls2, false, false, ""
			}
			return cls, false, false, fmt.Sprintf("got %s [%s] but the exact value ~1E%+.3f lies inside the context range (Emax %d)", got, ref.FlagNames(int(res)), lg, cc.R.Emax)
		case ref.Finite:
		default:
			return cls, false, false, fmt.Sprintf("got %s [%s] for an operand inside the domain", got, ref.FlagNames(int(res)))
		}
		if int(res)&ref.Underflow != 0 || (got.Coef.Sign() == 0 && v.Sign() != 0) {
			// underflow reported: the exact value must really be below 10^Emin (allowing one rounding)
			if lg-math.Pow(10, float64(1-p)) > float64(cc.R.Emin)+1e-9 {
				return cls, false, false, fmt.Sprintf("got %s [%s] (underflow reported) but the exact value ~1E%+.3f is not below 10^Emin (%d)", got, ref.FlagNames(int(res)), lg, cc.R.Emin)
			}
			cls += "/underflow-reported"
		}
		if got.Coef.Sign() != 0 && got.Neg != neg {
			return cls, false, false, fmt.Sprintf("sign: got %s, exact value is %v%s", got, map[bool]string{true: "-"}[neg], v.Text('g', 12))
		}
		// |r - v| <= ulp
		r := ref.NewF(prec).SetRat(ref.Rat(absVal(got)))
		diff := ref.NewF(prec).Sub(r, v)
		diff.Abs(diff)
		ulpExp := etiny
		if got.Coef.Sign() != 0 {
			if e := got.Adj() - p + 1; e > ulpExp {
				ulpExp = e
			}
		}
		if v.Sign() != 0 {
			if e := int(math.Floor(lg)) - p + 1; e > ulpExp {
				ulpExp = e
			}
		}
		ulp := ref.Pow10F(ulpExp, prec)
		hi := ref.NewF(prec).Add(diff, margin)
		lo := ref.NewF(prec).Sub(diff, margin)
		if hi.Cmp(ulp) <= 0 {
			return cls, false, false, ""
		}
		if lo.Cmp(ulp) > 0 {
			ulps := ref.NewF(64).Quo(diff, ulp)
			return base, false, false, fmt.Sprintf("got %s [%s]; exact value %s; error %s ulp (ulp = 1E%+d)", got, ref.FlagNames(int(res)), v.Text('g', p+8), ulps.Text('g', 5), ulpExp)
		}
		digits *= 2
	}
	return cls, false, true, ""
}

func lnArgs(tier string) []Operand {
	var out []Operand
	jm, km := 8, 3
	if tier == "thorough" {
		jm, km = 14, 6
	}
	for j := 1; j <= jm; j++ {
		for k := -km; k <= km; k++ {
			// 10^k * (1 +- 10^-j), also with a trailing 5
			up := new(big.Int).Add(ref.Pow10(j), big.NewInt(1))
			dn := new(big.Int).Sub(ref.Pow10(j), big.NewInt(1))
			out = append(out, FinBig(up, int32(k-j), false), FinBig(dn, int32(k-j), false))
		}
	}
	for _, s := range []DecJ{{Coef: "1"}, {Coef: "10"}, {Coef: "100", Exp: -1}, {Coef: "1", Exp: 5}, {Coef: "2"}, {Coef: "27182818284590452354", Exp: -19}, {Coef: "1", Exp: -7}, {Coef: "999999999999", Exp: 0}, {Coef: "1", Exp: 300}, {Coef: "1", Exp: -300}, {Coef: "5", Exp: 99999}, {Coef: "5", Exp: -100000}} {
		out = append(out, s.Op())
	}
	return out
}

func expArgs(precs []uint32) []Operand {
	var out []Operand
	for j := 0; j <= 12; j++ {
		out = append(out, Fin(1, int32(-j), false), Fin(1, int32(-j), true), Fin(9, int32(-j), false), Fin(5, int32(-j), true))
	}
	add := func(f float64) {
		c := int64(math.Round(f * 10))
		out = append(out, Fin(c, -1, false), Fin(c, -1, true))
	}
	for _, p := range precs {
		pf := float64(p)
		add(22.9 * pf)
		add(23 * pf)
		add(23*pf + 1)
	}
	for _, v := range []int64{130, 150, 200, 300, 500, 1000, 2000} {
		// between 23*Precision and the overflow/underflow thresholds of mid-sized exponent ranges
		out = append(out, Fin(v, 0, false), Fin(v, 0, true))
	}
	for _, v := range []int64{22999, 23000, 23001, 50000, 230258, 230259, 1000000} {
		out = append(out, Fin(v, 0, false), Fin(v, 0, true))
	}
	out = append(out, Fin(15, 0, false), Fin(123, -2, false), Fin(5555555, -5, false), Fin(100000001, -8, true), Fin(2302585092994, -12, false))
	return out
}

func c12Run(e *core.Env) {
	precs := []uint32{1, 2, 3, 4, 5, 6, 7, 8, 9}
	corePrecs := []uint32{16, 34}
	if e.Thorough() {
		corePrecs = []uint32{16, 34, 60}
	}
	// {-1000, 50} and {-128, 96}: asymmetric ranges in which e^x for a negative x is representable although
	// |x| lies beyond what MaxExponent alone would allow
	ranges := [][2]int32{{-6143, 6144}, {-100000, 100000}, {-3, 9}, {0, 9}, {-1000, 50}, {-128, 96}}
	if e.Thorough() {
		ranges = append(ranges, [2]int32{-1, 5}, [2]int32{-20, 20})
	}
	k := 2
	if e.Thorough() {
		k = 3
	}
	dense := DenseSel(3, 4, func(c int64) bool { return c != 0 && (k == 3 || c < 100 || c%37 == 0) })
	L := 8
	if e.Thorough() {
		L = 12
	}
	var shapes []Operand
	for i, c := range shapeCoefs(L) {
		if e.Thorough() || i%4 == 0 {
			n := int32(ref.NDig(c))
			shapes = append(shapes, FinBig(c, -n+1, false), FinBig(c, -n, true), FinBig(c, -n+2, false))
		}
	}
	run := func(op string, x Operand, y *Operand, cc CtxCase) {
		e.Trans(1)
		e.Running(func() string { return mkCase(op, x, y, cc).String() })
		cls, triv, und, msg := c12One(op, x, y, cc)
		if und {
			e.Undecided()
			e.Outcome(cls+"/undecided", false)
			return
		}
		e.Outcome(cls, triv)
		if msg != "" || (!triv && e.WantSample()) {
			a := mkCase(op, x, y, cc)
			if msg != "" {
				e.Fail(cls, "c12", a, a.String()+": "+msg)
			} else {
				e.Sample(a.String() + " => " + cls)
			}
		}
	}
	modes := []apd.Rounder{apd.RoundHalfEven, apd.RoundHalfUp, apd.RoundDown, apd.RoundUp, apd.RoundCeiling, apd.RoundFloor}
	ctxFor := func(p uint32, i int) CtxCase {
		r := ranges[i%len(ranges)]
		if r[1] < int32(p) {
			r = ranges[0]
		}
		return MkCtx(p, r[0], r[1], modes[(i/len(ranges))%len(modes)], 0)
	}
	// unary functions on dense + shape + special argument families
	un := append(append([]Operand{}, dense...), shapes...)
	idx := int64(0)
	for i, x := range un {
		idx++
		if !e.Mine(idx) {
			continue
		}
		if e.Expired() {
			e.Cap("soft deadline in unary sweep")
			break
		}
		e.State()
		for _, p := range precs {
			cc := ctxFor(p, i+int(p))
			for _, op := range []string{"Exp", "Ln", "Log10"} {
				if op == "Exp" && x.V.Adj() > 5 {
					continue
				}
				run(op, x, nil, cc)
			}
		}
	}
	la := lnArgs(e.Tier)
	allP := append(append([]uint32{}, precs...), corePrecs...)
	for i, x := range la {
		idx++
		if !e.Mine(idx) {
			continue
		}
		e.State()
		for _, p := range allP {
			for _, op := range []string{"Ln", "Log10"} {
				run(op, x, nil, ctxFor(p, i))
				run(op, x, nil, MkCtx(p, -100000, 100000, apd.RoundHalfEven, 0))
			}
		}
	}
	ea := expArgs(allP)
	for i, x := range ea {
		idx++
		if !e.Mine(idx) {
			continue
		}
		e.State()
		for _, p := range allP {
			run("Exp", x, nil, ctxFor(p, i))
			run("Exp", x, nil, MkCtx(p, -100000, 100000, apd.RoundHalfEven, 0))
		}
	}
	// tight exponent ranges: every three-digit coefficient at two exponents under ranges in which
	// the functions' intermediate values would be subnormal
	for c := int64(1); c < 1000; c++ {
		idx++
		if !e.Mine(idx) {
			continue
		}
		e.State()
		for _, ex := range []int32{-2, 0} {
			x := Fin(c, ex, false)
			for _, p := range []uint32{1, 2} {
				for _, r := range [][2]int32{{0, 9}, {-1, 5}} {
					for _, m := range []apd.Rounder{apd.RoundHalfEven, apd.RoundFloor} {
						for _, op := range []string{"Exp", "Ln", "Log10"} {
							if op == "Exp" && ex == 0 && c > 30 {
								continue
							}
							run(op, x, nil, MkCtx(p, r[0], r[1], m, 0))
						}
					}
				}
			}
		}
	}
	// tiny exponent ranges (Emax = 1..3) with operands of large magnitude: log10(x) fits the range while
	// ln(x) = 2.30 log10(x) does not (and the other way round for the underflow side)
	{
		var big []Operand
		for _, k := range []int32{44, 50, 100, 440, 5000, -44, -50, -440, -5000} {
			big = append(big, Fin(1, k, false), Fin(3, k, false), Fin(97, k, false))
		}
		for i, x := range big {
			idx++
			if !e.Mine(idx) {
				continue
			}
			e.State()
			_ = i
			for _, pe := range [][2]int32{{1, 1}, {2, 2}, {3, 3}, {3, 1}, {1, 3}} {
				for _, m := range []apd.Rounder{apd.RoundHalfEven, apd.RoundFloor} {
					for _, op := range []string{"Ln", "Log10"} {
						run(op, x, nil, MkCtx(uint32(pe[0]), -pe[1], pe[1], m, 0))
					}
				}
			}
		}
	}
	// 200-operand core at high precisions
	for i := 0; i < len(un); i += len(un)/200 + 1 {
		idx++
		if !e.Mine(idx) {
			continue
		}
		for _, p := range corePrecs {
			cc := MkCtx(p, -6143, 6144, apd.RoundHalfEven, 0)
			for _, op := range []string{"Exp", "Ln", "Log10"} {
				if op == "Exp" && un[i].V.Adj() > 3 {
					continue
				}
				run(op, un[i], nil, cc)
			}
		}
	}
	// high precisions on the arguments that take Ln's power series (|z-1| <= 0.1 after scaling: the edges 0.9, 1.1 and
	// inside) and on arguments next to them: the number of series terms grows with the precision
	for hi, hx := range []DecJ{{Coef: "9", Exp: -1}, {Coef: "11", Exp: -1}, {Coef: "905", Exp: -2}, {Coef: "105", Exp: -2}, {Coef: "93", Exp: -2}, {Coef: "1099", Exp: -3}, {Coef: "89", Exp: -2}, {Coef: "111", Exp: -2}} {
		idx++
		if !e.Mine(idx) {
			continue
		}
		_ = hi
		e.State()
		for _, p := range []uint32{60, 110, 130, 150, 200} {
			cc := MkCtx(p, -6143, 6144, apd.RoundHalfEven, 0)
			run("Ln", hx.Op(), nil, cc)
			run("Log10", hx.Op(), nil, cc)
		}
	}
	// constant tables: one operand per level, p = 2^i, 2^i +- 1 up to the length of the constants
	var tp []uint32
	maxp := uint32(300)
	if e.Thorough() {
		maxp = 2200
	}
	for q := uint32(2); q <= maxp; q *= 2 {
		tp = append(tp, q-1, q, q+1)
	}
	if e.Thorough() {
		tp = append(tp, 2100, 2190)
	}
	for i, p := range tp {
		idx++
		if !e.Mine(idx) {
			continue
		}
		cc := MkCtx(p, -100000, 100000, apd.RoundHalfEven, 0)
		a := Fin(int64(20+i%7), 0, false) // Ln(10*a') uses ln10 at this precision through the exponent adjustment
		run("Ln", Fin(int64(2+i%7), 3, false), nil, cc)
		run("Log10", a, nil, cc)
		e.State()
	}
	// Pow
	var pys []Operand
	for n := int64(-12); n <= 12; n++ {
		pys = append(pys, Fin(absI(n), 0, n < 0))
	}
	for _, f := range [][2]int64{{5, -1}, {15, -1}, {1, -1}, {2, -1}, {3, -1}, {7, -1}, {9, -1}, {25, -2}, {333, -3}, {125, -1}} {
		pys = append(pys, Fin(f[0], int32(f[1]), false), Fin(f[0], int32(f[1]), true))
	}
	pxs := DenseSel(3, 2, func(c int64) bool { return c != 0 && (c < 30 || c%50 == 0 || c == 99 || c == 101 || c == 999) })
	if e.Thorough() {
		pxs = DenseSel(3, 3, func(c int64) bool { return c != 0 && (c < 130 || c%25 == 0 || c > 990) })
	}
	for i, x := range pxs {
		idx++
		if !e.Mine(idx) {
			continue
		}
		if e.Expired() {
			e.Cap("soft deadline in Pow sweep")
			break
		}
		for j := range pys {
			e.State()
			for _, p := range []uint32{1, 2, 3, 5, 9} {
				if !e.Thorough() && (i+j+int(p))%2 == 0 {
					continue
				}
				run("Pow", x, &pys[j], ctxFor(p, i+j))
			}
		}
	}
	// integral exponents beyond 64 bits (and next to the 63/64-bit boundaries) with bases so close to one that the
	// power is still an ordinary number, and with bases whose power must over- or underflow
	{
		var hx, hy []Operand
		for _, s := range []DecJ{{Coef: "10000000000000000000000001", Exp: -25}, {Coef: "9999999999999999999999999", Exp: -25}, {Coef: "1000000000000000000000000000001", Exp: -30},
			{Coef: "2"}, {Coef: "5", Exp: -1}, {Coef: "1"}, {Coef: "1", Neg: true}, {Coef: "10"}} {
			hx = append(hx, s.Op())
		}
		for _, b := range []*big.Int{pow2(64), new(big.Int).Add(pow2(64), big.NewInt(1)), new(big.Int).Sub(pow2(64), big.NewInt(1)), pow2(63), new(big.Int).Add(pow2(65), big.NewInt(3)), pow2(127)} {
			hy = append(hy, FinBig(b, 0, false), FinBig(b, 0, true))
		}
		hy = append(hy, Fin(1, 20, false), Fin(1, 20, true), Fin(3, 19, false))
		for i := range hx {
			for j := range hy {
				idx++
				if !e.Mine(idx) {
					continue
				}
				e.State()
				for _, p := range []uint32{10, 16} {
					run("Pow", hx[i], &hy[j], MkCtx(p, -6143, 6144, apd.RoundHalfEven, 0))
				}
			}
		}
	}
	nx, ny := powNearOne()
	for i := range nx {
		for j := range ny {
			idx++
			if !e.Mine(idx) {
				continue
			}
			e.State()
			for _, p := range []uint32{5, 9, 16, 34} {
				run("Pow", nx[i], &ny[j], MkCtx(p, -6143, 6144, apd.RoundHalfEven, 0))
			}
		}
	}
}

// powNearOne: bases 1 +- 10^-j with large integral exponents in both spellings (9E+5 and 900000): the
// rounding error of repeated squaring grows with |y|, so the guard digits must grow with the exponent's magnitude.
func powNearOne() (xs, ys []Operand) {
	for _, s := range []string{"1.00001", "0.99999", "1.0000003", "1.001", "0.999", "1.000000001", "1.5", "0.5"} {
		xs = append(xs, DecJ{Coef: strings.Replace(s, ".", "", 1), Exp: -int32(len(s) - strings.Index(s, ".") - 1)}.Op())
	}
	for _, j := range []DecJ{{Coef: "9", Exp: 5}, {Coef: "900000"}, {Coef: "3", Exp: 7}, {Coef: "30000000"}, {Coef: "1", Exp: 5}, {Coef: "100000"}, {Coef: "123456"}, {Coef: "1", Exp: 3}, {Coef: "1000"},
		{Coef: "9", Exp: 5, Neg: true}, {Coef: "2", Exp: 6}, {Coef: "65536"}, {Coef: "65535"}, {Coef: "1", Exp: 2}, {Coef: "12", Exp: 1}, {Coef: "25", Exp: 3, Neg: true}} {
		ys = append(ys, j.Op())
	}
	return
}

func c12Replay(kind string, raw json.RawMessage) string {
	a, err := decodeArith(raw)
	if err != nil {
		return "bad replay file"
	}
	x := a.X.Op()
	var y *Operand
	if a.Y != nil {
		o := a.Y.Op()
		y = &o
	}
	_, _, und, msg := c12One(a.Op, x, y, a.Ctx.Ctx())
	if und {
		return ""
	}
	if msg != "" {
		return a.String() + ": " + msg
	}
	return ""
}

func init() {
	core.Register(&core.Prop{
		ID:    "C12",
		Title: "Exp, Ln, Log10 and Pow are accurate to one unit in the last place",
		Rule:  "every (function, operands, precision, exponent range, mode) point of the product is executed and compared with a high-precision real reference (big.Float, own ln 2 / ln 10 by atanh series, explicit relative error bound; precision doubled until the one-ulp question is decided, otherwise counted as undecided and never reported); exact-by-definition cases exactly; overflow/underflow reports only if the exact value lies outside the range; non-trivial = operand inside the function's domain",
		Bounds: func(tier string) string {
			if tier == "thorough" {
				return "Exp/Ln/Log10 on DENSE(3,4) + SHAPE(12) x p = 1..9 (each operand under a rotating (exponent range, mode) pair out of 8 ranges incl. [0,9], [-1,5], [-3,9], [-1000,50], [-128,96] x 6 modes, every pair reached), Ln/Log10 arguments 10^k(1+-10^-j) j<=14 |k|<=6, tight ranges [0,9] and [-1,5] at p in {1,2} x {half_even, floor} on every c*10^e, c<1000, e in {-2,0}; Ln/Log10 of {1,3,97}E+-{44,50,100,440,5000} under ranges [-E,E], E in 1..3; Exp arguments {10^-j, 22.9p, 23p, 23p+1, +-130..2000, 22999..23001, 230258, 230259} at p in 1..9,16,34,60; Ln/Log10 of 0.9, 1.1, 9.05, 1.05, 0.93, 1.099, 0.89, 1.11 at p in {60,110,130,150,200}; constant tables: p = 2^i, 2^i+-1 up to 2200 through Ln and Log10; Pow on selected DENSE(3,3) x {integers -12..12, 20 fractions} x p in {1,2,3,5,9}"
			}
			return "Exp/Ln/Log10 on selected DENSE(3,4) + SHAPE(8) x p = 1..9 (each operand under a rotating (exponent range, mode) pair out of 6 ranges incl. [0,9], [-3,9], [-1000,50], [-128,96] x 6 modes, every pair reached), Ln/Log10 arguments 10^k(1+-10^-j) j<=8 |k|<=3, Exp argument family (10^-j, 22.9p, 23p, 23p+1, +-130..2000, 22999..10^6) at p in 1..9,16,34; tight ranges [0,9] and [-1,5] at p in {1,2} x {half_even, floor} on every c*10^e, c<1000, e in {-2,0}; Ln/Log10 of {1,3,97}E+-{44,50,100,440,5000} under ranges [-E,E], E in 1..3; Ln/Log10 of 0.9, 1.1, 9.05, 1.05, 0.93, 1.099, 0.89, 1.11 at p in {60,110,130,150,200}; constant tables up to p = 257; Pow on ~60 bases x 45 exponents x alternating p in {1,2,3,5,9}"
		},
		Run:    c12Run,
		Replay: c12Replay,
		Assumptions: []string{
			"real reference: big.Float series with a conservative relative error bound of 2^-(prec-72); the bound is not machine-checked, cases closer to the one-ulp boundary than the bound are counted as undecided",
			"ulp is the larger of the unit of the returned value and of the exact value at Precision digits (lenient at power-of-ten boundaries)",
		},
	})
}
