package props

import (
	"encoding/json"
	"fmt"

	"github.com/cockroachdb/apd/v3"

	"verif/internal/core"
	"verif/internal/ref"
)

// ArithCase is one (operation, operands, context) point; it is the replay form
// of C01, C02, C07 and C20 cases.
type ArithCase struct {
	Op  string `json:"op"`
	X   DecJ   `json:"x"`
	Y   *DecJ  `json:"y,omitempty"`
	Exp *int32 `json:"quantize_exp,omitempty"`
	Ctx CtxJ   `json:"ctx"`
	Str string `json:"str,omitempty"`
}

func (a ArithCase) String() string {
	s := fmt.Sprintf("%s(%s", a.Op, a.X.Text)
	if a.Y != nil {
		s += ", " + a.Y.Text
	}
	if a.Exp != nil {
		s += fmt.Sprintf(", exp=%d", *a.Exp)
	}
	if a.Str != "" {
		s += fmt.Sprintf(", %q", a.Str)
	}
	return s + fmt.Sprintf(") p=%d emin=%d emax=%d mode=%q traps=%#x", a.Ctx.P, a.Ctx.Emin, a.Ctx.Emax, a.Ctx.Mode, a.Ctx.Traps)
}

// callOp applies a named Context operation. It recovers from panics.
func callOp(op string, c *apd.Context, d, x, y *apd.Decimal, qexp int32) (res apd.Condition, err error, pan string) {
	defer func() {
		if r := recover(); r != nil {
			pan = fmt.Sprint(r)
		}
	}()
	switch op {
	case "Add":
		res, err = c.Add(d, x, y)
	case "Sub":
		res, err = c.Sub(d, x, y)
	case "Mul":
		res, err = c.Mul(d, x, y)
	case "Quo":
		res, err = c.Quo(d, x, y)
	case "QuoInteger":
		res, err = c.QuoInteger(d, x, y)
	case "Rem":
		res, err = c.Rem(d, x, y)
	case "Pow":
		res, err = c.Pow(d, x, y)
	case "Cmp":
		res, err = c.Cmp(d, x, y)
	case "Abs":
		res, err = c.Abs(d, x)
	case "Neg":
		res, err = c.Neg(d, x)
	case "Round":
		res, err = c.Round(d, x)
	case "Reduce":
		_, res, err = c.Reduce(d, x)
	case "Sqrt":
		res, err = c.Sqrt(d, x)
	case "Cbrt":
		res, err = c.Cbrt(d, x)
	case "Exp":
		res, err = c.Exp(d, x)
	case "Ln":
		res, err = c.Ln(d, x)
	case "Log10":
		res, err = c.Log10(d, x)
	case "Ceil":
		res, err = c.Ceil(d, x)
	case "Floor":
		res, err = c.Floor(d, x)
	case "RoundToIntegralValue":
		res, err = c.RoundToIntegralValue(d, x)
	case "RoundToIntegralExact":
		res, err = c.RoundToIntegralExact(d, x)
	case "Quantize":
		res, err = c.Quantize(d, x, qexp)
	default:
		panic("callOp: unknown op " + op)
	}
	return
}

// BinaryOps / UnaryOps classify operation names by arity.
var binaryOp = map[string]bool{"Add": true, "Sub": true, "Mul": true, "Quo": true, "QuoInteger": true, "Rem": true, "Pow": true, "Cmp": true}

// AllCtxOps lists the Context operations with a (d, x[, y]) signature.
var AllCtxOps = []string{"Add", "Sub", "Mul", "Quo", "QuoInteger", "Rem", "Pow", "Cmp", "Abs", "Neg", "Round", "Reduce", "Sqrt", "Cbrt", "Exp", "Ln", "Log10", "Ceil", "Floor", "RoundToIntegralValue", "RoundToIntegralExact", "Quantize"}

func decodeArith(raw json.RawMessage) (ArithCase, error) {
	var a ArithCase
	err := json.Unmarshal(raw, &a)
	return a, err
}

// mkCase assembles the replay form.
func mkCase(op string, x Operand, y *Operand, c CtxCase) ArithCase {
	a := ArithCase{Op: op, X: x.J, Ctx: c.J()}
	a.X.Text = x.V.String()
	if y != nil {
		j := y.J
		j.Text = y.V.String()
		a.Y = &j
	}
	return a
}

// arithExact computes the exact result of Add/Sub/Mul/Quo/Abs/Neg/Round for
// finite operands. ok=false when the operation is undefined here (x/0).
func arithExact(op string, x, y ref.Val, c ref.Ctx) (ex ref.Exact, zeroSignFree bool, ok bool) {
	switch op {
	case "Add":
		return ref.AddExact(x, y, false, c.Mode), false, true
	case "Sub":
		return ref.AddExact(x, y, true, c.Mode), false, true
	case "Mul":
		return ref.MulExact(x, y), false, true
	case "Quo":
		if y.Coef.Sign() == 0 {
			return ex, false, false
		}
		return ref.QuoExact(x, y, c), false, true
	case "Abs":
		ex = ref.FromVal(x)
		ex.Neg = false
		return ex, false, true
	case "Neg":
		ex = ref.FromVal(x)
		ex.Neg = !x.Neg
		// the sign of a negated zero is left open (DESIGN 5a.4)
		return ex, x.Coef.Sign() == 0, true
	case "Round", "SetString":
		return ref.FromVal(x), false, true
	}
	return ex, false, false
}

// resultClass names the input class of an arithmetic case from the reference
// result only (never from the implementation's answer).
func resultClass(op string, ex ref.Exact, r ref.RoundRes, c ref.Ctx) string {
	cls := op
	switch {
	case r.V.Form == ref.Inf:
		cls += "/overflow"
	case r.Flags&ref.Subnormal != 0:
		cls += "/subnormal"
		if ex.Neg && (c.Mode == "floor" || c.Mode == "ceiling") {
			cls += "-neg-directed"
		}
		if r.Flags&ref.Inexact != 0 {
			cls += "-inexact"
		}
	case r.Flags&ref.Inexact != 0:
		cls += "/inexact"
	default:
		cls += "/exact"
	}
	return cls
}

func outcomeTrivial(cls string) bool {
	n := len(cls)
	return n >= 6 && cls[n-6:] == "/exact"
}

var _ = core.Register
