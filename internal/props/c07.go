package props

import (
	"encoding/json"
	"fmt"
	"math/big"

	"github.com/cockroachdb/apd/v3"

	"verif/internal/core"
	"verif/internal/ref"
)

// C07: every finite result fits the context it was computed in. Invariant
// check on every result, no reference model.

var c07Binary = []string{"Add", "Sub", "Mul", "Quo", "Rem", "QuoInteger"}
var c07Unary = []string{"Abs", "Neg", "Round", "Reduce", "Sqrt"}
var c07Trans = []string{"Cbrt", "Exp", "Ln", "Log10"}

// fitMsg checks the invariant on a result.
func fitMsg(op string, d *apd.Decimal, c *apd.Context) string {
	if d.Form < apd.Finite || d.Form > apd.NaN {
		return fmt.Sprintf("invalid form %d", d.Form)
	}
	if d.Form != apd.Finite {
		return ""
	}
	co := d.Coeff.MathBigInt()
	if co.Sign() < 0 || d.Coeff.Sign() < 0 {
		return fmt.Sprintf("negative coefficient %s", co)
	}
	nd := ref.NDig(co)
	if c.Precision > 0 && nd > int(c.Precision) {
		return fmt.Sprintf("%d coefficient digits > Precision %d (result %sE%d)", nd, c.Precision, co, d.Exponent)
	}
	adj := int(d.Exponent) + nd - 1
	if adj > int(c.MaxExponent) {
		return fmt.Sprintf("adjusted exponent %d > MaxExponent %d (result %sE%d)", adj, c.MaxExponent, co, d.Exponent)
	}
	if c.Precision > 0 && co.Sign() != 0 {
		etiny := int(c.MinExponent) - int(c.Precision) + 1
		if int(d.Exponent) < etiny {
			return fmt.Sprintf("exponent %d < Etiny %d (result %sE%d)", d.Exponent, etiny, co, d.Exponent)
		}
	}
	if op == "QuoInteger" && d.Exponent != 0 {
		return fmt.Sprintf("QuoInteger exponent %d != 0", d.Exponent)
	}
	return ""
}

func c07One(op string, x Operand, y *Operand, qexp int32, cc CtxCase, str string) (cls string, trivial bool, msg string) {
	var yd *apd.Decimal
	var yv ref.Val
	if y != nil {
		yd, yv = y.D, y.V
	}
	var d apd.Decimal
	c := cc.C
	var res apd.Condition
	var err error
	var pan string
	if op == "SetString" {
		func() {
			defer func() {
				if r := recover(); r != nil {
					pan = fmt.Sprint(r)
				}
			}()
			_, res, err = c.SetString(&d, str)
		}()
	} else {
		res, err, pan = callOp(op, &c, &d, x.D, yd, qexp)
	}
	if pan != "" {
		return op + "/panic", false, "panic: " + pan
	}
	if err != nil {
		if isSysErr(res, err) {
			if nearLimit(x.V, yv) {
				return op + "/syslimit", false, ""
			}
			return op + "/syserror", false, ""
		}
		return op + "/error", false, ""
	}
	switch {
	case d.Form != apd.Finite:
		cls = op + "/nonfinite"
	case res&apd.Subnormal != 0:
		cls = op + "/subnormal"
	case res&apd.Inexact != 0:
		cls = op + "/inexact"
	case res&apd.Rounded != 0:
		cls = op + "/rounded"
	default:
		cls = op + "/exact"
	}
	return cls, cls == op+"/exact", fitMsg(op, &d, &c)
}

func c07Specials() []Operand {
	return []Operand{
		DecJ{Form: ref.Inf}.Op(), DecJ{Form: ref.Inf, Neg: true}.Op(),
		DecJ{Form: ref.Inf, Coef: "99998", Exp: 11}.Op(), // dirty infinity as left behind by an overflowing Mul
	}
}

func c07Run(e *core.Env) {
	sp := buildArithSpace(e.Tier, e.Seed)
	do := func(op string, x Operand, y *Operand, qexp int32, cc CtxCase, str string) {
		cls, triv, msg := c07One(op, x, y, qexp, cc, str)
		e.Trans(1)
		e.Outcome(cls, triv)
		if msg != "" || e.WantSample() {
			a := mkCase(op, x, y, cc)
			a.Str = str
			if op == "Quantize" {
				q := qexp
				a.Exp = &q
			}
			if msg != "" {
				e.Fail(op+"/fit", "arith", a, a.String()+": "+msg)
			} else {
				e.Sample(a.String() + " => " + cls)
			}
		}
	}
	ys := append(append([]Operand{}, sp.Ys...), c07Specials()...)
	for ix := range sp.Xs {
		if !e.Mine(int64(ix)) {
			continue
		}
		if e.Expired() {
			e.Cap("soft deadline in binary sweep")
			break
		}
		x := sp.Xs[ix]
		for iy := range ys {
			y := ys[iy]
			e.State()
			for _, cc := range sp.Ctxs {
				for _, op := range c07Binary {
					do(op, x, &y, 0, cc, "")
				}
			}
		}
	}
	w := int32(4)
	if e.Thorough() {
		w = 7
	}
	for iu := range sp.Us {
		if !e.Mine(int64(iu)) {
			continue
		}
		u := sp.Us[iu]
		e.State()
		sps := spellings(u.V)
		for _, cc := range sp.Ctxs {
			for _, op := range c07Unary {
				do(op, u, nil, 0, cc, "")
			}
			for q := -w; q <= w; q++ {
				do("Quantize", u, nil, q, cc, "")
			}
			do("SetString", u, nil, 0, cc, sps[0])
		}
	}
	// high-precision block
	for iu := range sp.HiUs {
		if !e.Mine(int64(iu)) {
			continue
		}
		e.State()
		for _, cc := range sp.HiCtxs {
			for _, op := range c07Unary {
				do(op, sp.HiUs[iu], nil, 0, cc, "")
			}
			do("SetString", sp.HiUs[iu], nil, 0, cc, spellings(sp.HiUs[iu].V)[0])
		}
	}
	for ip := range sp.HiPairs {
		if !e.Mine(int64(ip)) {
			continue
		}
		pr := sp.HiPairs[ip]
		e.State()
		for _, cc := range sp.HiCtxs {
			for _, op := range c07Binary {
				do(op, pr[0], &pr[1], 0, cc, "")
			}
		}
	}
	// WIDE-EDGE family (space.go): wide products at the edges of the exponent range
	for iw, w := range wideEdge() {
		if !e.Mine(int64(iw)) {
			continue
		}
		e.State()
		y := w.Y
		for _, cc := range w.Ctxs {
			for _, op := range c07Binary {
				if op == "QuoInteger" && (cc.C.MaxExponent < 0 || cc.C.MinExponent > 0) {
					// the property asks for exponent 0 *and* an adjusted exponent within the range: where the
					// range does not contain 0 no non-zero integer satisfies both, so nothing is asserted
					continue
				}
				do(op, w.X, &y, 0, cc, "")
			}
		}
	}
	// transcendental functions: DENSE(2,3) singles x p <= 5 (thorough: DENSE(3,3) on a stride)
	k := 2
	if e.Thorough() {
		k = 3
	}
	tf := Dense(k, 3)
	var tctx []CtxCase
	precs := []uint32{1, 2, 3, 5}
	if e.Thorough() {
		precs = []uint32{1, 2, 3, 4, 5, 9}
	}
	for _, p := range precs {
		ip := int32(p)
		for _, r := range [][2]int32{{0, ip}, {-1, ip + 2}, {-3, 9}, {-6143, 6144}} {
			tctx = append(tctx, MkCtx(p, r[0], r[1], apd.RoundHalfEven, 0), MkCtx(p, r[0], r[1], apd.RoundUp, 0))
		}
	}
	for i := range tf {
		if !e.Mine(int64(i)) {
			continue
		}
		if e.Expired() {
			e.Cap("soft deadline in transcendental sweep")
			break
		}
		e.State()
		for _, cc := range tctx {
			for _, op := range c07Trans {
				do(op, tf[i], nil, 0, cc, "")
			}
		}
	}
	// Pow: pairs from DENSE(1..2,2) x exponents {integers -12..12, halves, small fractions}
	var pys []Operand
	for n := int64(-12); n <= 12; n++ {
		pys = append(pys, Fin(absI(n), 0, n < 0))
	}
	for _, f := range [][2]int64{{5, -1}, {15, -1}, {1, -1}, {9, -1}, {25, -2}, {1, 1}, {3, 1}} {
		pys = append(pys, Fin(f[0], int32(f[1]), false), Fin(f[0], int32(f[1]), true))
	}
	pxs := Dense(2, 2)
	if !e.Thorough() {
		pxs = DenseSel(2, 2, func(c int64) bool { return c < 13 || c%9 == 0 || c == 50 || c == 25 })
	}
	for i := range pxs {
		if !e.Mine(int64(i)) {
			continue
		}
		if e.Expired() {
			e.Cap("soft deadline in Pow sweep")
			break
		}
		for j := range pys {
			e.State()
			for ci, cc := range tctx {
				if !e.Thorough() && ci%2 == 1 {
					continue
				}
				do("Pow", pxs[i], &pys[j], 0, cc, "")
			}
		}
	}
}

func absI(n int64) int64 {
	if n < 0 {
		return -n
	}
	return n
}

func c07Replay(kind string, raw json.RawMessage) string {
	a, err := decodeArith(raw)
	if err != nil {
		return "bad replay file: " + err.Error()
	}
	x := a.X.Op()
	var y *Operand
	if a.Y != nil {
		o := a.Y.Op()
		y = &o
	}
	var q int32
	if a.Exp != nil {
		q = *a.Exp
	}
	_, _, msg := c07One(a.Op, x, y, q, a.Ctx.Ctx(), a.Str)
	if msg != "" {
		return a.String() + ": " + msg
	}
	return ""
}

func init() {
	core.Register(&core.Prop{
		ID:    "C07",
		Title: "Every finite result fits the context it was computed in",
		Rule:  "every (operation x operands x context) point is executed and the result checked against the fit invariant (digits <= Precision counted from the decimal text, adjusted exponent <= Emax, exponent >= Etiny for non-zero values, non-negative coefficient, valid form, QuoInteger exponent 0); non-trivial = the result was rounded, inexact, subnormal, non-finite or at a system limit",
		Bounds: func(tier string) string {
			return buildArithSpace(tier, 0).Desc + "; ops Add,Sub,Mul,Quo,Rem,QuoInteger on X x (Y + clean/dirty infinities); Abs,Neg,Round,Reduce,Sqrt,Quantize,SetString on U; Cbrt,Exp,Ln,Log10 on DENSE(2|3,3) x p<=5(9) x 4 ranges x 2 modes; Pow on DENSE(2,2) x {integers -12..12, fractions}; WIDE-EDGE family: 8x8 coefficient pairs of 10..21 digits x precision {n-1,n,n+1,60} x 3 modes x MinExponent/MaxExponent -2..+2 steps around the adjusted exponent of the exact product (QuoInteger only where the range contains exponent 0)"
		},
		Run:    c07Run,
		Replay: c07Replay,
		Assumptions: []string{
			"no reference model: the invariant is evaluated on the implementation's own result; digits are counted from MathBigInt().Text(10), not with apd's NumDigits",
		},
	})
}

var _ = big.NewInt
