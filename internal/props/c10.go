package props

import (
	"encoding/json"
	"fmt"

	"github.com/cockroachdb/apd/v3"

	"verif/internal/core"
	"verif/internal/ref"
)

// C10: QuoInteger and Rem satisfy the division identity (exact integers on a common exponent).

func c10One(x, y Operand, cc CtxCase) (cls string, trivial bool, msg string) {
	if y.V.Coef.Sign() == 0 {
		return "zero-divisor", true, "" // C08's territory
	}
	gap := abs(x.V.Exp - y.V.Exp)
	c := cc.C
	var dq, dr apd.Decimal
	resq, errq, panq := callOp("QuoInteger", &c, &dq, x.D, y.D, 0)
	resr, errr, panr := callOp("Rem", &c, &dr, x.D, y.D, 0)
	if panq != "" || panr != "" {
		return "panic", false, "panic: " + panq + panr
	}
	if gap > ref.Limit {
		// operand gap beyond the package limit: an "exponent out of range" error is accepted
		if errq != nil && errr != nil {
			return "gap>limit/error", false, ""
		}
	}
	if errq != nil || errr != nil {
		if nearLimit(x.V, y.V) && (errq == nil || isSysErr(resq, errq)) && (errr == nil || isSysErr(resr, errr)) {
			return "syslimit", false, ""
		}
		return "error", false, fmt.Sprintf("unexpected error with empty trap set: QuoInteger err=%v Rem err=%v", errq, errr)
	}
	q, r, e := ref.DivInt(x.V, y.V)
	gq, gr := ToVal(&dq), ToVal(&dr)
	if ref.NDig(q) > cc.R.P {
		cls = "impossible"
		if gq.Form != ref.NaN || int(resq)&ref.DivisionImpossible == 0 {
			return cls, false, fmt.Sprintf("QuoInteger: integer quotient %s needs more than %d digits: want NaN+DivisionImpossible, got %s [%s]", q, cc.R.P, gq, ref.FlagNames(int(resq)))
		}
		if gr.Form != ref.NaN || int(resr)&ref.DivisionImpossible == 0 {
			return cls, false, fmt.Sprintf("Rem: integer quotient %s needs more than %d digits: want NaN+DivisionImpossible, got %s [%s]", q, cc.R.P, gr, ref.FlagNames(int(resr)))
		}
		return cls, false, ""
	}
	if int(resq)&ref.DivisionImpossible != 0 || int(resr)&ref.DivisionImpossible != 0 {
		return "possible", false, fmt.Sprintf("DivisionImpossible although the integer quotient %s fits %d digits: QuoInteger %s [%s], Rem %s [%s]", q, cc.R.P, gq, ref.FlagNames(int(resq)), gr, ref.FlagNames(int(resr)))
	}
	wantNeg := x.V.Neg != y.V.Neg
	if gq.Form != ref.Finite || gq.Exp != 0 || gq.Coef.Cmp(q) != 0 || gq.Neg != wantNeg {
		return "quotient", false, fmt.Sprintf("QuoInteger: want %s%sE+0, got %s [%s]", map[bool]string{true: "-", false: ""}[wantNeg], q, gq, ref.FlagNames(int(resq)))
	}
	ex := ref.Exact{Neg: x.V.Neg, N: r, E: e}
	want := ref.Round(ex, cc.R)
	cls = "rem-exact"
	if want.Flags&ref.Inexact != 0 {
		cls = "rem-rounded"
	}
	if r.Sign() == 0 {
		cls = "rem-zero"
	}
	if gap > 30 {
		cls += "-gap"
	}
	if !ref.EqualNumeric(gr, want.V) {
		return cls, false, fmt.Sprintf("Rem: exact remainder %s%sE%d, want %s, got %s [%s]", map[bool]string{true: "-", false: ""}[x.V.Neg], r, e, want.V, gr, ref.FlagNames(int(resr)))
	}
	if want.Flags&ref.Inexact == 0 {
		// the rounding mode must not matter
		for _, m := range Modes8 {
			c2 := cc.C
			c2.Rounding = m
			o := run1("Rem", c2, x.D, y.D, 0)
			if o.bad() || !ref.EqualNumeric(o.V, want.V) {
				return cls, false, fmt.Sprintf("Rem: exact remainder fits the context but mode %q gives %s (want %s)", m, o, want.V)
			}
		}
		// |r| < |y|
		if gr.Form == ref.Finite && ref.Cmp(absVal(gr), absVal(y.V)) >= 0 {
			return cls, false, fmt.Sprintf("Rem: |%s| >= |%s|", gr, y.V)
		}
	}
	return cls, r.Sign() == 0, ""
}

func c10Run(e *core.Env) {
	var xs, ys []Operand
	var ctxs []CtxCase
	if e.Thorough() {
		xs = append(Dense(3, 5), Edge(EdgeExps)...)
		ys = append(DenseSel(3, 4, func(c int64) bool { return c < 130 || c%50 < 2 || c%100 == 99 || c > 990 }), Edge([]int32{-40, -1, 0, 1, 40})...)
		ctxs = Contexts([]uint32{1, 2, 3, 4, 5, 9}, true, []apd.Rounder{apd.RoundHalfEven, apd.RoundDown, apd.RoundCeiling})
	} else {
		xs = append(opsFrom(selCoefQuick, -4, 4), Edge([]int32{-129, -40, -1, 0, 1, 40, 129})...)
		ys = append(opsFrom(selCoefY, -3, 3), Edge([]int32{-1, 0, 40})...)
		xs = opsFrom(selCoefQuick, -3, 3)
		xs = append(xs, Edge([]int32{-129, -40, 0, 1, 40})...)
		for _, p := range []uint32{19, 20, 38, 39} {
			// quotients of 19-39 digits: coefficients across the 64- and 128-bit boundaries (a 20-digit quotient
			// below 2^64 must be impossible at precision 19, a 39-digit one below 2^128 at precision 38)
			ctxs = append(ctxs, MkCtx(p, -6143, 6144, apd.RoundHalfEven, 0), MkCtx(p, -6143, 6144, apd.RoundFloor, 0))
		}
		for _, p := range []uint32{1, 2, 3, 9} {
			ip := int32(p)
			for _, r := range [][2]int32{{0, ip}, {-1, ip + 2}, {-3, 9}, {-6143, 6144}} {
				if r[1] < ip {
					continue
				}
				for _, m := range []apd.Rounder{apd.RoundHalfEven, apd.RoundUp, apd.RoundFloor, apd.RoundCeiling} {
					ctxs = append(ctxs, MkCtx(p, r[0], r[1], m, 0))
				}
			}
		}
	}
	// precisions beyond the 128-entry power-of-ten table (10^Precision itself is then computed, not looked up)
	ctxs = append(ctxs, MkCtx(129, -6143, 6144, apd.RoundHalfEven, 0), MkCtx(200, -6143, 6144, apd.RoundDown, 0))
	// exponent ranges narrower than the precision: an integer quotient of up to Precision digits has an
	// adjusted exponent above MaxExponent (or, with a positive MinExponent, below it) and is still returned exactly
	for _, m := range []apd.Rounder{apd.RoundHalfEven, apd.RoundUp} {
		ctxs = append(ctxs, MkCtx(9, -3, 3, m, 0), MkCtx(5, 0, 2, m, 0), MkCtx(9, 2, 20, m, 0), MkCtx(3, 1, 1, m, 0))
	}
	do := func(x, y Operand, cc CtxCase) {
		cls, triv, msg := c10One(x, y, cc)
		e.Trans(2)
		e.Outcome(cls, triv)
		if msg != "" || e.WantSample() {
			a := mkCase("QuoInteger+Rem", x, &y, cc)
			if msg != "" {
				e.Fail(cls, "c10", a, a.String()+": "+msg)
			} else {
				e.Sample(a.String() + " => " + cls)
			}
		}
	}
	for ix := range xs {
		if !e.Mine(int64(ix)) {
			continue
		}
		if e.Expired() {
			e.Cap("soft deadline")
			break
		}
		for iy := range ys {
			e.State()
			for _, cc := range ctxs {
				do(xs[ix], ys[iy], cc)
			}
		}
	}
	// LIMIT family: gaps up to and beyond the package limit (small cross product: each case costs milliseconds)
	lim := limitOperands()
	small := []Operand{Fin(1, 0, false), Fin(7, 0, true), Fin(99, -2, false), Fin(12345, 3, false)}
	cw := []CtxCase{MkCtx(3, -100000, 100000, apd.RoundHalfEven, 0), MkCtx(9, -100000, 100000, apd.RoundDown, 0)}
	n := int64(0)
	for _, a := range lim {
		for _, b := range append(append([]Operand{}, small...), lim...) {
			n++
			if !e.Mine(n) {
				continue
			}
			e.State()
			for _, cc := range cw {
				do(a, b, cc)
				do(b, a, cc)
			}
		}
	}
}

func c10Replay(kind string, raw json.RawMessage) string {
	a, err := decodeArith(raw)
	if err != nil || a.Y == nil {
		return "bad replay file"
	}
	_, _, msg := c10One(a.X.Op(), a.Y.Op(), a.Ctx.Ctx())
	if msg != "" {
		return a.String() + ": " + msg
	}
	return ""
}

func init() {
	core.Register(&core.Prop{
		ID:    "C10",
		Title: "Integer division and remainder satisfy the division identity",
		Rule:  "every (x, y, context) point runs QuoInteger and Rem on the real code and compares both with q*=trunc(x/y), r*=x-q*y computed in exact integers on a common exponent (DivisionImpossible iff digits(q*)>Precision; Rem = r* rounded once with the sign of x; identical under all eight modes whenever r* fits); non-trivial = non-zero remainder, impossible division or system limit",
		Bounds: func(tier string) string {
			if tier == "thorough" {
				return "x in DENSE(3,5)+EDGE, y in selected DENSE(3,4)+EDGE, contexts p in {1,2,3,4,5,9} x 11 ranges x 3 modes + 4 ranges narrower than the precision (Emax < p-1, Emin > 0) x 2 modes; LIMIT x (LIMIT + 4 small) in both orders at p in {3,9}"
			}
			return "x in 69 selected coefficients x exp[-4,4] x sign + EDGE, y in 21 coefficients x exp[-3,3] x sign + EDGE, contexts p in {1,2,3,9} x 4 ranges x 4 modes (half_even, up, floor, ceiling) + p in {19,20,38,39} x 2 modes + p in {129,200} + 4 ranges narrower than the precision (Emax < p-1, Emin > 0) x 2 modes; LIMIT x (LIMIT + 4 small) in both orders at p in {3,9}"
		},
		Run:         c10Run,
		Replay:      c10Replay,
		Assumptions: []string{"exact integer oracle on math/big; operand gaps beyond the package limit may return an exponent-out-of-range error"},
	})
}
