package props

import (
	"bufio"
	"fmt"
	"math/big"
	"os"
	"path/filepath"
	"sort"
	"strconv"
	"strings"

	"verif/internal/core"
	"verif/internal/ref"
)

// selftest-ref: the reference model R is validated against an external authority - the IBM/GDA
// .decTest vector files shipped in the repository's testdata - never against apd. A mismatch on a
// supported vector is a reference-model bug (exit 2, no VIOLATION line).

type gdaCtx struct {
	c        ref.Ctx
	extended bool
	clamp    bool
}

var gdaFlagBits = map[string]int{
	"inexact": ref.Inexact, "subnormal": ref.Subnormal, "underflow": ref.Underflow, "overflow": ref.Overflow,
	"division_by_zero": ref.DivisionByZero, "division_undefined": ref.DivisionUndefined, "division_impossible": ref.DivisionImpossible,
	"invalid_operation": ref.InvalidOperation, "conversion_syntax": ref.InvalidOperation, "rounded": 0, "clamped": 0, "lost_digits": 0,
}

func splitGDA(line string) []string {
	var out []string
	i := 0
	for i < len(line) {
		for i < len(line) && (line[i] == ' ' || line[i] == '\t') {
			i++
		}
		if i >= len(line) {
			break
		}
		if line[i] == '\'' || line[i] == '"' {
			q := line[i]
			j := i + 1
			var sb strings.Builder
			for j < len(line) {
				if line[j] == q {
					if j+1 < len(line) && line[j+1] == q {
						sb.WriteByte(q)
						j += 2
						continue
					}
					break
				}
				sb.WriteByte(line[j])
				j++
			}
			out = append(out, sb.String())
			i = j + 1
			continue
		}
		j := i
		for j < len(line) && line[j] != ' ' && line[j] != '\t' {
			j++
		}
		out = append(out, line[i:j])
		i = j
	}
	return out
}

// gdaOverflowIsInf: apd documents that overflow always yields an infinity; GDA gives the largest finite
// number under some directed modes. Vectors where the two conventions differ are skipped.
func gdaOverflowIsInf(mode string, neg bool) bool {
	switch mode {
	case "down", "05up":
		return false
	case "ceiling":
		return !neg
	case "floor":
		return neg
	}
	return true
}

type gdaStats struct {
	checked, skipped int
	skipWhy          map[string]int
	fails            []string
}

func (s *gdaStats) skip(why string) { s.skipped++; s.skipWhy[why]++ }

func hasPayload(s string) bool {
	l := strings.ToLower(strings.TrimLeft(s, "+-"))
	if strings.HasPrefix(l, "snan") {
		return len(l) > 4
	}
	if strings.HasPrefix(l, "nan") {
		return len(l) > 3
	}
	return false
}

func selftestRef(dir string) (*gdaStats, error) {
	st := &gdaStats{skipWhy: map[string]int{}}
	files := []string{"abs", "add", "subtract", "multiply", "divide", "divideint", "remainder", "plus", "minus", "quantize", "reduce", "rounding", "squareroot", "tointegral", "tointegralx", "compare"}
	for _, f := range files {
		path := filepath.Join(dir, f+".decTest")
		fh, err := os.Open(path)
		if err != nil {
			return nil, err
		}
		g := gdaCtx{c: ref.Ctx{P: 9, Emin: -383, Emax: 384, Mode: "half_up"}, extended: true}
		sc := bufio.NewScanner(fh)
		sc.Buffer(make([]byte, 1<<20), 1<<20)
		for sc.Scan() {
			line := sc.Text()
			if i := strings.Index(line, "--"); i >= 0 {
				// comments start with -- outside quotes; the vector files never use -- inside operands
				line = line[:i]
			}
			line = strings.TrimSpace(line)
			if line == "" {
				continue
			}
			if i := strings.Index(line, ":"); i > 0 && !strings.Contains(line, "->") {
				k := strings.ToLower(strings.TrimSpace(line[:i]))
				v := strings.ToLower(strings.TrimSpace(line[i+1:]))
				switch k {
				case "precision":
					g.c.P, _ = strconv.Atoi(v)
				case "rounding":
					g.c.Mode = v
				case "maxexponent":
					g.c.Emax, _ = strconv.Atoi(v)
				case "minexponent":
					g.c.Emin, _ = strconv.Atoi(v)
				case "extended":
					g.extended = v == "1"
				case "clamp":
					g.clamp = v == "1"
				}
				continue
			}
			tok := splitGDA(line)
			arrow := -1
			for i, t := range tok {
				if t == "->" {
					arrow = i
				}
			}
			if arrow < 3 || arrow+1 >= len(tok) {
				continue
			}
			id, op := tok[0], strings.ToLower(tok[1])
			operands := tok[2:arrow]
			result := tok[arrow+1]
			wantFlags := 0
			unknownFlag := false
			for _, fl := range tok[arrow+2:] {
				b, ok := gdaFlagBits[strings.ToLower(fl)]
				if !ok {
					unknownFlag = true
				}
				wantFlags |= b
			}
			if unknownFlag {
				st.skip("unknown condition name")
				continue
			}
			if !g.extended {
				st.skip("extended: 0")
				continue
			}
			if g.clamp {
				st.skip("clamp: 1")
				continue
			}
			if g.c.P > 400 {
				st.skip("precision above 400")
				continue
			}
			bad := false
			var vals []ref.Val
			for _, o := range operands {
				if o == "#" || hasPayload(o) {
					bad = true
					break
				}
				v, ok := ref.Parse(o)
				if !ok {
					bad = true
					break
				}
				vals = append(vals, v)
			}
			if bad || result == "?" || hasPayload(result) {
				st.skip("null operand / NaN payload / unparsable operand")
				continue
			}
			want, ok := ref.Parse(result)
			if !ok {
				st.skip("unparsable result")
				continue
			}
			got, gotFlags, cmpExp, supported := gdaPredict(op, vals, g.c)
			if !supported {
				st.skip("operation or special case not modelled: " + op)
				continue
			}
			if got.Form == ref.Inf && gotFlags&ref.Overflow != 0 && !gdaOverflowIsInf(g.c.Mode, got.Neg) {
				st.skip("overflow under a mode where GDA returns the largest finite number (documented apd convention)")
				continue
			}
			st.checked++
			okv := true
			switch {
			case isNaNForm(want):
				okv = got.Form == ref.NaN
			case want.Form == ref.Inf:
				okv = got.Form == ref.Inf && got.Neg == want.Neg
			default:
				okv = got.Form == ref.Finite && ref.EqualNumeric(got, want)
				if okv && cmpExp && got.Exp != want.Exp {
					okv = false
				}
			}
			mask := ref.Inexact | ref.Subnormal | ref.Underflow | ref.Overflow | ref.DivisionByZero | ref.DivisionUndefined | ref.DivisionImpossible | ref.InvalidOperation
			if op == "quantize" || op == "tointegral" || op == "tointegralx" {
				mask &^= ref.Subnormal // not modelled for these operations (DESIGN 5a.6); never asserted by C02/C09 either
			}
			if !okv || gotFlags&mask != wantFlags&mask {
				st.fails = append(st.fails, fmt.Sprintf("%s: %s %v p=%d emin=%d emax=%d %s: vector expects %s [%s], reference model predicts %s [%s]", id, op, operands, g.c.P, g.c.Emin, g.c.Emax, g.c.Mode, result, ref.FlagNames(wantFlags&mask), got, ref.FlagNames(gotFlags&mask)))
			}
		}
		fh.Close()
	}
	return st, nil
}

// gdaPredict is the reference model's prediction for one vector.
func gdaPredict(op string, v []ref.Val, c ref.Ctx) (res ref.Val, flags int, cmpExp bool, ok bool) {
	nan := ref.Val{Form: ref.NaN, Coef: new(big.Int)}
	fromSpecial := func(opName string, x, y ref.Val, binary bool) (ref.Val, int, bool) {
		e := c08Special(opName, x, y, binary, c)
		switch e.kind {
		case kNaN:
			return nan, e.flags, true
		case kInf:
			return ref.Val{Form: ref.Inf, Neg: e.neg, Coef: new(big.Int)}, e.flags, true
		case kZero:
			if e.signAny {
				return ref.Val{}, 0, false
			}
			return ref.Val{Neg: e.neg, Coef: new(big.Int)}, e.flags, true
		}
		return ref.Val{}, 0, false
	}
	anySpecial := func() bool {
		for _, x := range v {
			if x.Form != ref.Finite {
				return true
			}
		}
		return false
	}
	round := func(ex ref.Exact) (ref.Val, int, bool, bool) {
		r := ref.Round(ex, c)
		if r.Unspec {
			return ref.Val{}, 0, false, false
		}
		return r.V, r.Flags, false, true
	}
	switch op {
	case "add", "subtract":
		if len(v) != 2 {
			return
		}
		name := map[string]string{"add": "Add", "subtract": "Sub"}[op]
		if anySpecial() || (v[0].IsZero() && v[1].IsZero()) {
			r, f, k := fromSpecial(name, v[0], v[1], true)
			if k && r.Form == ref.Finite {
				// zero result: the exponent rules are not modelled here, the sign is
				return r, f, false, true
			}
			return r, f, false, k
		}
		return round(ref.AddExact(v[0], v[1], op == "subtract", c.Mode))
	case "multiply":
		if len(v) != 2 {
			return
		}
		if anySpecial() {
			r, f, k := fromSpecial("Mul", v[0], v[1], true)
			return r, f, false, k
		}
		return round(ref.MulExact(v[0], v[1]))
	case "divide":
		if len(v) != 2 {
			return
		}
		if anySpecial() || v[1].IsZero() {
			r, f, k := fromSpecial("Quo", v[0], v[1], true)
			return r, f, false, k
		}
		return round(ref.QuoExact(v[0], v[1], c))
	case "plus", "minus", "abs":
		if len(v) != 1 {
			return
		}
		x := v[0]
		if x.Form != ref.Finite {
			if isNaNForm(x) {
				r, f, k := fromSpecial("Abs", x, ref.Val{}, false)
				return r, f, false, k
			}
			neg := x.Neg
			if op == "abs" {
				neg = false
			} else if op == "minus" {
				neg = !neg
			}
			return ref.Val{Form: ref.Inf, Neg: neg, Coef: new(big.Int)}, 0, false, true
		}
		zero := ref.Val{Coef: new(big.Int), Exp: x.Exp}
		sub := op == "minus" || (op == "abs" && x.Neg)
		return round(ref.AddExact(zero, x, sub, c.Mode))
	case "squareroot":
		if len(v) != 1 {
			return
		}
		x := v[0]
		if x.Form != ref.Finite || x.IsZero() || x.Neg {
			r, f, k := fromSpecial("Sqrt", x, ref.Val{}, false)
			return r, f, false, k
		}
		c2 := c
		c2.Mode = "half_even"
		r := ref.Round(ref.SqrtExact(x, c2), c2)
		return r.V, r.Flags, false, true
	case "quantize":
		if len(v) != 2 {
			return
		}
		if v[0].Form != ref.Finite || v[1].Form != ref.Finite {
			if isNaNForm(v[0]) || isNaNForm(v[1]) {
				r, f, k := fromSpecial("Add", v[0], v[1], true) // NaN propagation rule is common
				return r, f, false, k
			}
			if v[0].Form == ref.Inf && v[1].Form == ref.Inf {
				return ref.Val{Form: ref.Inf, Neg: v[0].Neg, Coef: new(big.Int)}, 0, false, true
			}
			return nan, ref.InvalidOperation, false, true
		}
		r, inexact, _, invalid := ref.QuantizeRef(v[0], v[1].Exp, c)
		if invalid {
			return nan, ref.InvalidOperation, false, true
		}
		f := 0
		if inexact {
			f = ref.Inexact
		}
		return r, f, true, true
	case "reduce":
		if len(v) != 1 {
			return
		}
		x := v[0]
		if x.Form != ref.Finite {
			if isNaNForm(x) {
				r, f, k := fromSpecial("Reduce", x, ref.Val{}, false)
				return r, f, false, k
			}
			return x, 0, false, true
		}
		// reduce keeps the sign of a zero operand (redx016..022), unlike plus
		r := ref.Round(ref.FromVal(x), c)
		if r.Unspec {
			return
		}
		out := r.V
		if out.Form == ref.Finite {
			if out.Coef.Sign() == 0 {
				out.Exp = 0
			} else {
				for new(big.Int).Mod(out.Coef, big.NewInt(10)).Sign() == 0 {
					out.Coef = new(big.Int).Quo(out.Coef, big.NewInt(10))
					out.Exp++
				}
			}
		}
		return out, r.Flags, out.Form == ref.Finite, true
	case "tointegral", "tointegralx":
		if len(v) != 1 {
			return
		}
		x := v[0]
		if x.Form != ref.Finite {
			if isNaNForm(x) {
				r, f, k := fromSpecial("Round", x, ref.Val{}, false)
				return r, f, false, k
			}
			return x, 0, false, true
		}
		if x.Exp >= 0 {
			return x, 0, true, true
		}
		c0 := c
		c0.P = 0
		c0.Emin, c0.Emax = -(1 << 30), 1<<30
		r, inexact, _, _ := ref.QuantizeRef(x, 0, c0)
		f := 0
		if inexact && op == "tointegralx" {
			f = ref.Inexact
		}
		return r, f, true, true
	case "divideint", "remainder":
		if len(v) != 2 {
			return
		}
		name := map[string]string{"divideint": "QuoInteger", "remainder": "Rem"}[op]
		if anySpecial() || v[1].IsZero() {
			e := c08Special(name, v[0], v[1], true, c)
			if e.kind == kSameX {
				r := ref.Round(ref.FromVal(v[0]), c)
				return r.V, r.Flags, false, !r.Unspec
			}
			r, f, k := fromSpecial(name, v[0], v[1], true)
			return r, f, false, k
		}
		if abs(v[0].Exp-v[1].Exp) > 5000 {
			return
		}
		q, r, e := ref.DivInt(v[0], v[1])
		if ref.NDig(q) > c.P {
			return nan, ref.DivisionImpossible, false, true
		}
		if op == "divideint" {
			return ref.Val{Neg: v[0].Neg != v[1].Neg, Coef: q}, 0, true, true
		}
		return round(ref.Exact{Neg: v[0].Neg, N: r, E: e})
	case "compare":
		if len(v) != 2 {
			return
		}
		if isNaNForm(v[0]) || isNaNForm(v[1]) {
			r, f, k := fromSpecial("Add", v[0], v[1], true)
			return r, f, false, k
		}
		cm := ref.Cmp(v[0], v[1])
		return ref.Val{Neg: cm < 0, Coef: big.NewInt(int64(abs(cm)))}, 0, false, true
	}
	return
}

// selftestText validates the grammar recogniser and the to-scientific-string formatter against the toSci vectors of
// base.decTest: for every vector whose result carries no rounding condition, Parse(operand) must succeed and
// FormatSci(Parse(operand)) must equal the expected string; vectors that expect Conversion_syntax must be rejected.
func selftestText(dir string) (checked, skipped int, fails []string, err error) {
	fh, e := os.Open(filepath.Join(dir, "base.decTest"))
	if e != nil {
		return 0, 0, nil, e
	}
	defer fh.Close()
	prec := 9
	maxE := 384
	sc := bufio.NewScanner(fh)
	sc.Buffer(make([]byte, 1<<20), 1<<20)
	for sc.Scan() {
		line := sc.Text()
		if i := strings.Index(line, "--"); i >= 0 && !strings.Contains(line[:i], "'") && !strings.Contains(line[:i], "\"") {
			line = line[:i]
		}
		line = strings.TrimSpace(line)
		if line == "" || strings.HasPrefix(line, "--") {
			continue
		}
		if i := strings.Index(line, ":"); i > 0 && !strings.Contains(line, "->") {
			k := strings.ToLower(strings.TrimSpace(line[:i]))
			v := strings.TrimSpace(line[i+1:])
			if k == "precision" {
				prec, _ = strconv.Atoi(v)
			}
			if k == "maxexponent" {
				maxE, _ = strconv.Atoi(v)
			}
			continue
		}
		tok := splitGDA(line)
		if len(tok) < 5 || strings.ToLower(tok[1]) != "tosci" || tok[3] != "->" {
			continue
		}
		operand, want := tok[2], tok[4]
		conds := strings.ToLower(strings.Join(tok[5:], " "))
		if strings.Contains(operand, "#") || hasPayload(operand) || hasPayload(want) {
			skipped++
			continue
		}
		if strings.Contains(conds, "conversion_syntax") {
			checked++
			if _, ok := ref.Parse(operand); ok {
				fails = append(fails, fmt.Sprintf("%s: recogniser accepts %q, vector expects Conversion_syntax", tok[0], operand))
			}
			continue
		}
		if conds != "" {
			skipped++ // rounded / overflowed on input: not a pure conversion
			continue
		}
		v, ok := ref.Parse(operand)
		if !ok {
			beyond := false
			if i := strings.LastIndexAny(want, "Ee"); i >= 0 {
				if n, err := strconv.Atoi(strings.TrimLeft(want[i+1:], "+")); err == nil && (n > 99990 || n < -99990) {
					beyond = true // outside the package limits: rejected by the representability side condition
				}
			}
			if strings.ContainsAny(operand, " ") || beyond {
				skipped++
				continue
			}
			fails = append(fails, fmt.Sprintf("%s: recogniser rejects %q, vector expects %q", tok[0], operand, want))
			checked++
			continue
		}
		if v.Form == ref.Finite && (ref.NDig(v.Coef) > prec || v.Adj() > maxE) {
			skipped++
			continue
		}
		checked++
		got := ref.FormatSci(v, 'E')
		if v.Form == ref.Finite && v.Coef.Sign() == 0 && v.Exp < 0 && v.Exp >= -2000 && v.Adj() < -6 {
			// the documented apd exception (zeros with exponent in [-2000,-1] are plain); GDA writes 0E-n
			got = map[bool]string{true: "-"}[v.Neg] + "0E" + strconv.Itoa(v.Exp)
		}
		if got != want {
			fails = append(fails, fmt.Sprintf("%s: FormatSci(Parse(%q)) = %q, vector expects %q", tok[0], operand, got, want))
		}
	}
	return
}

// selftestReal validates the real-valued reference (big.Float series) against published constants and identities.
func selftestReal() []string {
	var fails []string
	const (
		e100    = "2.718281828459045235360287471352662497757247093699959574966967627724076630353547594571382178525166427"
		ln2100  = "0.6931471805599453094172321214581765680755001343602552541206800094933936219696947156058633269964186875"
		ln10100 = "2.302585092994045684017991454684364207601101488628772976033327900967572609677352480235997205089598298"
	)
	near := func(name string, got *big.Float, want string, digits int) {
		w, _, _ := big.ParseFloat(want, 10, 2000, big.ToNearestEven)
		d := new(big.Float).Sub(got, w)
		d.Abs(d)
		tol := new(big.Float).Quo(big.NewFloat(1), new(big.Float).SetInt(ref.Pow10(digits)))
		if d.Cmp(tol) > 0 {
			fails = append(fails, fmt.Sprintf("%s differs from the published value beyond 1e-%d: %s", name, digits, got.Text('g', digits+5)))
		}
	}
	for _, dg := range []int{40, 95} {
		prec := ref.BitsFor(dg)
		near(fmt.Sprintf("exp(1) at %d digits", dg), ref.ExpF(ref.NewF(prec).SetInt64(1), prec), e100, dg)
		near(fmt.Sprintf("ln 2 at %d digits", dg), ref.Ln2(prec), ln2100, dg)
		near(fmt.Sprintf("ln 10 at %d digits", dg), ref.Ln10(prec), ln10100, dg)
	}
	// identities exp(ln x) = x and agreement between working precisions, over a spread of arguments
	for _, s := range []string{"2", "0.5", "10", "1.0000001", "0.9999999", "123456.789", "1E-30", "7E+40", "3.3E+200", "9.99E-250"} {
		v, _ := ref.Parse(s)
		for _, dg := range []int{30, 80, 400} {
			prec := ref.BitsFor(dg)
			l := ref.LnDec(v, prec)
			back := ref.ExpF(l, prec)
			x := ref.DecToF(v, prec)
			d := new(big.Float).Sub(back, x)
			d.Abs(d)
			rel := new(big.Float).Quo(d, x)
			tol := new(big.Float).Quo(big.NewFloat(1), new(big.Float).SetInt(ref.Pow10(dg-5)))
			if rel.Cmp(tol) > 0 {
				fails = append(fails, fmt.Sprintf("exp(ln(%s)) at %d digits is off by a relative %s", s, dg, rel.Text('g', 5)))
			}
			l2 := ref.LnDec(v, ref.BitsFor(dg+40))
			d2 := new(big.Float).Sub(l, l2)
			d2.Abs(d2)
			if l2.Sign() != 0 {
				d2.Quo(d2, new(big.Float).Abs(l2))
			}
			if d2.Cmp(tol) > 0 {
				fails = append(fails, fmt.Sprintf("ln(%s) at %d and %d digits disagree by a relative %s", s, dg, dg+40, d2.Text('g', 5)))
			}
		}
	}
	return fails
}

// SelftestMain runs the reference self-test and prints its report.
func SelftestMain(dir string) int {
	st, err := selftestRef(dir)
	if err != nil {
		fmt.Fprintln(os.Stderr, "selftest-ref:", err)
		return 2
	}
	fmt.Printf("selftest-ref: %d GDA vectors checked against the reference model, %d skipped, %d mismatches\n", st.checked, st.skipped, len(st.fails))
	var ks []string
	for k := range st.skipWhy {
		ks = append(ks, k)
	}
	sort.Strings(ks)
	for _, k := range ks {
		fmt.Printf("  skipped %6d: %s\n", st.skipWhy[k], k)
	}
	for i, f := range st.fails {
		if i < 40 {
			fmt.Println("  MISMATCH", f)
		}
	}
	tc, ts, tf, terr := selftestText(dir)
	if terr != nil {
		fmt.Fprintln(os.Stderr, "selftest-ref:", terr)
		return 2
	}
	fmt.Printf("selftest-ref: %d toSci vectors checked against the grammar recogniser and formatter, %d skipped, %d mismatches\n", tc, ts, len(tf))
	for i, f := range tf {
		if i < 40 {
			fmt.Println("  MISMATCH", f)
		}
	}
	rf := selftestReal()
	fmt.Printf("selftest-ref: real-valued reference: exp(1), ln 2, ln 10 against published 100-digit values, exp(ln x) = x and cross-precision agreement on 10 arguments x 3 precisions: %d mismatches\n", len(rf))
	for _, f := range rf {
		fmt.Println("  MISMATCH", f)
	}
	if len(st.fails) > 0 || len(tf) > 0 || len(rf) > 0 {
		return 2
	}
	return 0
}

func init() { core.SelfTest = SelftestMain }
