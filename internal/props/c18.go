//go:build verif

package props

import (
	"bytes"
	"encoding/json"
	"fmt"
	"os"
	"os/exec"
	"path/filepath"
	"reflect"
	"runtime"
	"sort"
	"strings"
	"sync"
	"time"
	"unsafe"

	"github.com/cockroachdb/apd/v3"

	"verif/internal/core"
	"verif/internal/sched"
	"verif/internal/snap"
)

// C18: a Context and its operands can be shared by concurrent goroutines.
// Engine E3 on the instrumented overlay build + a separate free-running -race pass.

type c18Shared struct {
	ctx       *apd.Context
	ops       map[string]*apd.Decimal
	init      string
	initLocal string
}

// dumpLocal covers the shared Context and operands only (cheap; used at every baton switch).
func (s *c18Shared) dumpLocal() string {
	var ks []string
	for k := range s.ops {
		ks = append(ks, k)
	}
	sort.Strings(ks)
	var sb strings.Builder
	sb.WriteString(ctxSnap(s.ctx))
	for _, k := range ks {
		sb.WriteString("|" + k + "=" + deepSnap(s.ops[k]))
	}
	return sb.String()
}

func (s *c18Shared) dump() string {
	var ks []string
	for k := range s.ops {
		ks = append(ks, k)
	}
	sort.Strings(ks)
	var sb strings.Builder
	sb.WriteString(snap.Dump(s.ctx))
	for _, k := range ks {
		sb.WriteString("|" + k + "=" + snap.Dump(s.ops[k]))
	}
	sb.WriteString("|G=" + globalsDump())
	return sb.String()
}

func globalsDump() string {
	g := apd.VerifGlobals()
	var ks []string
	for k := range g {
		ks = append(ks, k)
	}
	sort.Strings(ks)
	var sb strings.Builder
	for _, k := range ks {
		sb.WriteString(k + "=" + snap.Dump(g[k]) + ";")
	}
	return sb.String()
}

// shallowGlobals (historical name) saves the package-level state in depth and in place: the memory of every
// package-level variable and of everything reachable from it through pointers, slices (whole backing
// arrays) and interfaces holding pointers is recorded as a list of typed regions. restore writes every
// region back (typed copies, so pointer identities inside the package state stay exactly as they were),
// which makes every execution start from the initial package state - a lazily built table is "first use"
// in every schedule - and changed compares the regions byte-wise, so any write to package-level state,
// direct or behind pointers, is seen after every execution. Objects allocated during an execution are
// not part of the graph: they become unreachable when the pointers leading to them are restored.
type shallowGlobals struct {
	names   []string        // region -> name of the package-level variable it was reached from
	ptrs    []reflect.Value // pointers to the regions
	saved   []reflect.Value // addressable copies of their initial contents
	visited map[regionKey]bool
	maps    []savedMap
}

type regionKey struct {
	addr uintptr
	typ  reflect.Type
}

type savedMap struct {
	name    string
	m       reflect.Value // the live map
	entries [][2]reflect.Value
}

func saveGlobals() *shallowGlobals {
	g := apd.VerifGlobals()
	sg := &shallowGlobals{visited: map[regionKey]bool{}}
	var ks []string
	for k := range g {
		ks = append(ks, k)
	}
	sort.Strings(ks)
	for _, k := range ks {
		sg.region(k, reflect.ValueOf(g[k]))
	}
	return sg
}

// region records the memory p points to and walks what it references.
func (sg *shallowGlobals) region(name string, p reflect.Value) {
	if p.IsNil() {
		return
	}
	t := p.Type().Elem()
	if t.Size() == 0 {
		return
	}
	key := regionKey{p.Pointer(), t}
	if sg.visited[key] {
		return
	}
	sg.visited[key] = true
	c := reflect.New(t).Elem()
	c.Set(p.Elem())
	sg.names = append(sg.names, name)
	sg.ptrs = append(sg.ptrs, p)
	sg.saved = append(sg.saved, c)
	sg.walk(name, p.Elem())
}

// clean returns v without the read-only mark of unexported fields (v is addressable).
func clean(v reflect.Value) reflect.Value {
	return reflect.NewAt(v.Type(), unsafe.Pointer(v.UnsafeAddr())).Elem()
}

func (sg *shallowGlobals) walk(name string, v reflect.Value) {
	switch v.Kind() {
	case reflect.Ptr:
		if !v.IsNil() {
			sg.region(name, clean(v))
		}
	case reflect.Struct:
		for i := 0; i < v.NumField(); i++ {
			sg.walk(name, v.Field(i))
		}
	case reflect.Array:
		if !hasRefs(v.Type().Elem()) {
			return
		}
		for i := 0; i < v.Len(); i++ {
			sg.walk(name, v.Index(i))
		}
	case reflect.Slice:
		if v.IsNil() || v.Cap() == 0 {
			return
		}
		full := clean(v).Slice3(0, v.Cap(), v.Cap())
		arr := reflect.NewAt(reflect.ArrayOf(v.Cap(), v.Type().Elem()), unsafe.Pointer(full.Pointer()))
		sg.region(name, arr)
	case reflect.Interface:
		if !v.IsNil() && v.Elem().Kind() == reflect.Ptr {
			sg.region(name, clean(v).Elem())
		}
	case reflect.Map:
		if v.IsNil() {
			return
		}
		sm := savedMap{name: name, m: clean(v)}
		it := sm.m.MapRange()
		for it.Next() {
			sm.entries = append(sm.entries, [2]reflect.Value{it.Key(), it.Value()})
			if it.Value().Kind() == reflect.Ptr && !it.Value().IsNil() {
				sg.region(name, it.Value())
			}
		}
		sg.maps = append(sg.maps, sm)
	}
}

func hasRefs(t reflect.Type) bool {
	switch t.Kind() {
	case reflect.Ptr, reflect.Slice, reflect.Interface, reflect.Map, reflect.String, reflect.Func, reflect.Chan, reflect.UnsafePointer:
		return true
	case reflect.Struct:
		for i := 0; i < t.NumField(); i++ {
			if hasRefs(t.Field(i).Type) {
				return true
			}
		}
		return false
	case reflect.Array:
		return hasRefs(t.Elem())
	}
	return false
}

func (sg *shallowGlobals) restore() {
	for i, p := range sg.ptrs {
		p.Elem().Set(sg.saved[i])
	}
	for _, sm := range sg.maps {
		if sm.m.Len() != len(sm.entries) {
			for _, k := range sm.m.MapKeys() {
				sm.m.SetMapIndex(k, reflect.Value{})
			}
		}
		for _, e := range sm.entries {
			sm.m.SetMapIndex(e[0], e[1])
		}
	}
}

// changed returns the name of a package-level variable whose memory, or memory reachable from it, differs
// from the saved initial state.
func (sg *shallowGlobals) changed() string {
	for i, p := range sg.ptrs {
		n := p.Type().Elem().Size()
		a := unsafe.Slice((*byte)(unsafe.Pointer(p.Pointer())), n)
		b := unsafe.Slice((*byte)(unsafe.Pointer(sg.saved[i].UnsafeAddr())), n)
		if !bytes.Equal(a, b) {
			return sg.names[i]
		}
	}
	for _, sm := range sg.maps {
		if sm.m.Len() != len(sm.entries) {
			return sm.name
		}
		for _, e := range sm.entries {
			v := sm.m.MapIndex(e[0])
			if !v.IsValid() || !reflect.DeepEqual(v.Interface(), e[1].Interface()) {
				return sm.name
			}
		}
	}
	return ""
}

func mustDec(s string) *apd.Decimal {
	d, _, err := apd.NewFromString(s)
	if err != nil {
		panic(err)
	}
	return d
}

func newShared(p uint32) *c18Shared {
	s := &c18Shared{ctx: &apd.Context{Precision: p, MinExponent: -2000, MaxExponent: 2000, Rounding: apd.RoundHalfEven, Traps: apd.DefaultTraps &^ apd.Subnormal}}
	s.ops = map[string]*apd.Decimal{
		"a":   mustDec("123.45"),
		"b":   mustDec("987654321098765432109876543210987654321012345.678"),
		"h":   DecJ{Coef: "7", Exp: -1, Heap: true}.Build(),
		"x1":  mustDec("7" + strings.Repeat("0", 149) + "3"),
		"x2":  mustDec("9" + strings.Repeat("0", 169) + "1"),
		"y3":  mustDec("3"),
		"y7":  mustDec("7E-5"),
		"t":   mustDec("2.5"),
		"q":   mustDec("0.5"),
		"n":   mustDec("-44.125"),
		"z":   mustDec("1.0000001"),
		"w":   mustDec("1E+140"),
		"0":   mustDec("0"),
		"1":   mustDec("1"),
		"m1":  mustDec("-1"),
		"big": mustDec("9E+1999"),
		"nb":  mustDec("-987654321098765432109876543210987654321012345.678"),
		"n2":  mustDec("-44.1250"),
		"g1":  mustDec("3E+1030"), "g2": mustDec("-7E+1100"), "g3": mustDec("11E+1200"), "g4": mustDec("5E-1050"), "g5": mustDec("9E+1400"), "g6": mustDec("-2E-1300"),
		"f1": mustDec("3E+40"), "f2": mustDec("-7E-55"), "f3": mustDec("12E+90"),
	}
	s.init = s.dump()
	s.initLocal = s.dumpLocal()
	return s
}

// c18Quiet runs harness-side formatting without scheduling points.
var c18Sched *sched.Scheduler

func quietly(f func() string) string {
	if c18Sched == nil {
		return f()
	}
	var r string
	c18Sched.Quiet(func() { r = f() })
	return r
}

// a call is one apd invocation by a thread, rendered to a string.
type c18Call struct {
	name string
	f    func(s *c18Shared) string
}

func ctxCall1(name string, f func(c *apd.Context, d, x *apd.Decimal) (apd.Condition, error), x string) c18Call {
	return c18Call{name + "(" + x + ")", func(s *c18Shared) string {
		var d apd.Decimal
		res, err := f(s.ctx, &d, s.ops[x])
		return quietly(func() string { return fmt.Sprintf("%s [%v] err=%v", rawStr(&d), uint32(res), err) })
	}}
}

func ctxCall2(name string, f func(c *apd.Context, d, x, y *apd.Decimal) (apd.Condition, error), x, y string) c18Call {
	return c18Call{name + "(" + x + "," + y + ")", func(s *c18Shared) string {
		var d apd.Decimal
		res, err := f(s.ctx, &d, s.ops[x], s.ops[y])
		return quietly(func() string { return fmt.Sprintf("%s [%v] err=%v", rawStr(&d), uint32(res), err) })
	}}
}

var (
	cAdd   = func(c *apd.Context, d, x, y *apd.Decimal) (apd.Condition, error) { return c.Add(d, x, y) }
	cSub   = func(c *apd.Context, d, x, y *apd.Decimal) (apd.Condition, error) { return c.Sub(d, x, y) }
	cMul   = func(c *apd.Context, d, x, y *apd.Decimal) (apd.Condition, error) { return c.Mul(d, x, y) }
	cQuo   = func(c *apd.Context, d, x, y *apd.Decimal) (apd.Condition, error) { return c.Quo(d, x, y) }
	cRem   = func(c *apd.Context, d, x, y *apd.Decimal) (apd.Condition, error) { return c.Rem(d, x, y) }
	cQuoI  = func(c *apd.Context, d, x, y *apd.Decimal) (apd.Condition, error) { return c.QuoInteger(d, x, y) }
	cPow   = func(c *apd.Context, d, x, y *apd.Decimal) (apd.Condition, error) { return c.Pow(d, x, y) }
	cSqrt  = func(c *apd.Context, d, x *apd.Decimal) (apd.Condition, error) { return c.Sqrt(d, x) }
	cCbrt  = func(c *apd.Context, d, x *apd.Decimal) (apd.Condition, error) { return c.Cbrt(d, x) }
	cLn    = func(c *apd.Context, d, x *apd.Decimal) (apd.Condition, error) { return c.Ln(d, x) }
	cLog10 = func(c *apd.Context, d, x *apd.Decimal) (apd.Condition, error) { return c.Log10(d, x) }
	cExp   = func(c *apd.Context, d, x *apd.Decimal) (apd.Condition, error) { return c.Exp(d, x) }
	cRound = func(c *apd.Context, d, x *apd.Decimal) (apd.Condition, error) { return c.Round(d, x) }
	cRed   = func(c *apd.Context, d, x *apd.Decimal) (apd.Condition, error) { _, r, e := c.Reduce(d, x); return r, e }
	cCeil  = func(c *apd.Context, d, x *apd.Decimal) (apd.Condition, error) { return c.Ceil(d, x) }
	cFloor = func(c *apd.Context, d, x *apd.Decimal) (apd.Condition, error) { return c.Floor(d, x) }
	cRTI   = func(c *apd.Context, d, x *apd.Decimal) (apd.Condition, error) { return c.RoundToIntegralExact(d, x) }
	cQ140  = func(c *apd.Context, d, x *apd.Decimal) (apd.Condition, error) { return c.Quantize(d, x, -140) }
	cQ135  = func(c *apd.Context, d, x *apd.Decimal) (apd.Condition, error) { return c.Quantize(d, x, -135) }
)

func readers(x, y string) c18Call {
	return c18Call{"readers(" + x + "," + y + ")", func(s *c18Shared) string {
		a, b := s.ops[x], s.ops[y]
		i, ierr := a.Int64()
		f, _ := b.Float64()
		var in, fr, fr2, in2 apd.Decimal
		a.Modf(&in, &fr)
		a.Modf(nil, &fr2) // the discarded part has no destination of the caller's
		b.Modf(&in2, nil)
		if fr2.CmpTotal(&fr) != 0 {
			fr.Set(&fr2) // surfaces in the rendered outcome
		}
		fm, ng, co, ex := b.Decompose(nil)
		str, txt, cmp1, cmp2, nd, iz := a.String(), b.Text('e'), a.Cmp(b), b.CmpTotal(a), a.NumDigits()+b.NumDigits(), a.IsZero()
		return quietly(func() string {
			return fmt.Sprintf("%s %s %d %d %d %v %g %s %s %d %v %x %d %d %t", str, txt, cmp1, cmp2, i, ierr != nil, f, rawStr(&in), rawStr(&fr), fm, ng, co, ex, nd, iz)
		})
		return fmt.Sprintf("%s %s %d %d %d %v %g %s %s %d %v %x %d %d %t", a.String(), b.Text('e'), a.Cmp(b), b.CmpTotal(a), i, ierr != nil, f, rawStr(&in), rawStr(&fr), fm, ng, co, ex, a.NumDigits()+b.NumDigits(), a.IsZero())
	}}
}

// formatCall formats shared operands through fmt with a field width (Decimal.Format writes padding).
func formatCall(format string, ops ...string) c18Call {
	return c18Call{"Sprintf(" + format + ")", func(s *c18Shared) string {
		var args []interface{}
		for _, o := range ops {
			args = append(args, s.ops[o])
		}
		return fmt.Sprintf(format, args...)
	}}
}

// textCall renders shared operands with Decimal.Text in the given format (the zero runs of 'f' are written by fmtF).
func textCall(format byte, ops ...string) c18Call {
	return c18Call{"Text(" + string(format) + ")", func(s *c18Shared) string {
		var sb strings.Builder
		for _, o := range ops {
			sb.WriteString(s.ops[o].Text(format))
			sb.WriteByte('|')
		}
		return sb.String()
	}}
}

type c18Scenario struct {
	Name    string
	P       uint32
	Threads [][]c18Call
	Heavy   bool // composite calls: preemption only at the first MaxOcc occurrences of each site per thread
	Bound   int  // preemption bound explored (quick)
	BoundT  int  // thorough
}

func c18Scenarios() []c18Scenario {
	t := func(c ...c18Call) []c18Call { return c }
	return []c18Scenario{
		{"add||mul", 9, [][]c18Call{t(ctxCall2("Add", cAdd, "a", "b")), t(ctxCall2("Mul", cMul, "a", "b"))}, false, 2, 2},
		{"quo-gap150||quo-gap170 (tableExp10 above 128, different arguments)", 5, [][]c18Call{t(ctxCall2("Quo", cQuo, "x1", "y3")), t(ctxCall2("Quo", cQuo, "x2", "y7"))}, false, 2, 2},
		{"quantize-140||quantize-135", 60, [][]c18Call{t(ctxCall1("Quantize-140", cQ140, "a")), t(ctxCall1("Quantize-135", cQ135, "t"))}, false, 2, 2},
		{"rem-gap||quointeger-gap (upscale temporaries)", 200, [][]c18Call{t(ctxCall2("Rem", cRem, "x1", "y7")), t(ctxCall2("QuoInteger", cQuoI, "x2", "y3"))}, false, 1, 2},
		{"add-heap||sub-heap||readers", 12, [][]c18Call{t(ctxCall2("Add", cAdd, "b", "h")), t(ctxCall2("Sub", cSub, "h", "b")), t(readers("a", "b"))}, false, 1, 2},
		{"round||reduce||numdigits>128bits", 7, [][]c18Call{t(ctxCall1("Round", cRound, "b")), t(ctxCall1("Reduce", cRed, "w")), t(readers("x1", "x2"))}, false, 1, 2},
		{"ceil||floor||rti (Modf temporaries)", 9, [][]c18Call{t(ctxCall1("Ceil", cCeil, "b")), t(ctxCall1("Floor", cFloor, "n")), t(ctxCall1("RoundToIntegralExact", cRTI, "w"))}, false, 1, 2},
		{"mul;quo||add;quantize (two calls per thread)", 9, [][]c18Call{t(ctxCall2("Mul", cMul, "a", "t"), ctxCall2("Quo", cQuo, "x1", "y3")), t(ctxCall2("Add", cAdd, "b", "a"), ctxCall1("Quantize-135", cQ135, "q"))}, false, 1, 2},
		{"trapped conditions: quo(1/0)||quo(0/0)||sqrt(-1) (different trap errors from one shared Context)", 9, [][]c18Call{t(ctxCall2("Quo", cQuo, "1", "0")), t(ctxCall2("Quo", cQuo, "0", "0")), t(ctxCall1("Sqrt", cSqrt, "m1"))}, false, 1, 2},
		{"trapped conditions: mul-overflow;rem(1,0)||quointeger-impossible;ln(-1)", 3, [][]c18Call{t(ctxCall2("Mul", cMul, "big", "big"), ctxCall2("Rem", cRem, "1", "0")), t(ctxCall2("QuoInteger", cQuoI, "b", "y7"), ctxCall1("Ln", cLn, "m1"))}, false, 1, 2},
		{"negative operands: readers(n,nb)||add(n,nb)||readers(n2,n) (read-only methods on shared negative decimals)", 12, [][]c18Call{t(readers("n", "nb")), t(ctxCall2("Add", cAdd, "n", "nb")), t(readers("n2", "n"))}, false, 1, 2},
		{"fmt with field widths: %040v||%-40v %40v||%+038e (padding written by Decimal.Format)", 9, [][]c18Call{t(formatCall("%040v", "a")), t(formatCall("%-40v|%40v", "n", "a")), t(formatCall("%+038e|% 012f", "t", "q"))}, false, 1, 2},
		{"sqrt||sqrt (WithPrecision on the shared context)", 9, [][]c18Call{t(ctxCall1("Sqrt", cSqrt, "a")), t(ctxCall1("Sqrt", cSqrt, "b"))}, true, 1, 1},
		{"ln||log10 (ln10 / 1/ln10 tables at different precisions)", 7, [][]c18Call{t(ctxCall1("Ln", cLn, "a")), t(ctxCall1("Log10", cLog10, "b"))}, true, 1, 1},
		{"exp||ln-near-one (power series)", 6, [][]c18Call{t(ctxCall1("Exp", cExp, "t")), t(ctxCall1("Ln", cLn, "z"))}, true, 1, 1},
		{"cbrt||pow", 5, [][]c18Call{t(ctxCall1("Cbrt", cCbrt, "a")), t(ctxCall2("Pow", cPow, "t", "q"))}, true, 1, 1},
		{"sqrt||add||string-readers", 8, [][]c18Call{t(ctxCall1("Sqrt", cSqrt, "t")), t(ctxCall2("Add", cAdd, "a", "b")), t(readers("b", "a"))}, true, 1, 1},
		{"ln||ln at precision 70 (first use of the constant-table entries beyond 64 digits)", 70, [][]c18Call{t(ctxCall1("Ln", cLn, "a")), t(ctxCall1("Ln", cLn, "t"))}, true, 1, 1},
		{"ln||log10 at precision 200 (two constant-table entries beyond 64 digits, both tables)", 200, [][]c18Call{t(ctxCall1("Ln", cLn, "t")), t(ctxCall1("Log10", cLog10, "a"))}, true, 1, 1},
		{"default rounding (empty Rounder on the shared Context): add||mul||round with digits to discard", 3, [][]c18Call{t(ctxCall2("Add", cAdd, "a", "b")), t(ctxCall2("Mul", cMul, "a", "t")), t(ctxCall1("Round", cRound, "b"))}, false, 1, 2},
		{"six exponent gaps of 1030-1400 (add;sub||rem;add||sub;quointeger: powers of ten far beyond the lookup table, more of them than any small cache holds)", 6, [][]c18Call{
			t(ctxCall2("Add", cAdd, "a", "g1"), ctxCall2("Sub", cSub, "g2", "t")),
			t(ctxCall2("Rem", cRem, "g3", "y3"), ctxCall2("Add", cAdd, "g4", "a")),
			t(ctxCall2("Sub", cSub, "t", "g5"), ctxCall2("Add", cAdd, "g6", "q"))}, true, 1, 1},
		{"fixed-point text with long zero runs: %f(3E+40)||Text('f')(-7E-55, 12E+90)||%f(12E+90, -7E-55) (zero padding of 40-90 places written by fmtF)", 9, [][]c18Call{t(formatCall("%f", "f1")), t(textCall('f', "f2", "f3")), t(formatCall("%f|%f", "f3", "f2"))}, false, 1, 2},
		{"exp||exp (shared operand, different destinations)", 9, [][]c18Call{t(ctxCall1("Exp", cExp, "q")), t(ctxCall1("Exp", cExp, "q"))}, true, 1, 1},
	}
}

type c18Case struct {
	Scenario string `json:"scenario"`
	Schedule []int  `json:"schedule"`
	MaxOcc   int    `json:"max_occurrences_per_site"`
	Kind     string `json:"kind"`
}

// c18RunSchedule executes one schedule of a scenario and returns the per-thread outcomes and the shared dump.
type c18Runner struct {
	sc     c18Scenario
	sh     *c18Shared
	s      *sched.Scheduler
	solo   [][]string
	out    [][]string
	midBad string
	nexec  int
	// forceGlobals: dump the package-level variables after this execution
	forceGlobals bool
	sg           *shallowGlobals
	// allowed: deep dumps of the package-level state that an execution may end in: the initial state and the
	// state after every sequential order of the scenario's threads (identical to the initial state as long
	// as the package keeps no lazily built shared state)
	allowed map[string]bool
}

func newRunner(sc c18Scenario, maxOcc int) *c18Runner {
	sg := saveGlobals()
	r := &c18Runner{sc: sc, sh: newShared(sc.P), s: sched.New(), sg: sg}
	if strings.HasPrefix(sc.Name, "default rounding") {
		r.sh.ctx.Rounding = ""
		r.sh.init, r.sh.initLocal = r.sh.dump(), r.sh.dumpLocal()
	}
	r.s.MaxOcc = maxOcc
	c18Sched = r.s
	apd.VerifYield = r.s.Yield
	apd.VerifBlock = r.s.Block
	// solo baselines (scheduler inactive: Yield returns immediately)
	for _, th := range sc.Threads {
		var o []string
		sg.restore() // every solo thread starts from the initial package state, like every schedule
		for _, c := range th {
			o = append(o, c.f(r.sh))
		}
		r.solo = append(r.solo, o)
	}
	r.allowed = map[string]bool{r.sh.init: true}
	permute(len(sc.Threads), func(order []int) {
		sg.restore()
		for _, ti := range order {
			for _, c := range sc.Threads[ti] {
				c.f(r.sh)
			}
		}
		r.allowed[r.sh.dump()] = true
	})
	sg.restore()
	r.s.OnSwitch = func() {
		if r.midBad == "" {
			if d := r.sh.dumpLocal(); d != r.sh.initLocal {
				r.midBad = firstDiff(r.sh.initLocal, d)
			}
		}
	}
	return r
}

// permute calls f with every permutation of 0..n-1.
func permute(n int, f func([]int)) {
	idx := make([]int, n)
	for i := range idx {
		idx[i] = i
	}
	var rec func(k int)
	rec = func(k int) {
		if k == n {
			f(append([]int{}, idx...))
			return
		}
		for i := k; i < n; i++ {
			idx[k], idx[i] = idx[i], idx[k]
			rec(k + 1)
			idx[k], idx[i] = idx[i], idx[k]
		}
	}
	rec(0)
}

func firstDiff(a, b string) string {
	n := len(a)
	if len(b) < n {
		n = len(b)
	}
	i := 0
	for i < n && a[i] == b[i] {
		i++
	}
	lo := i - 60
	if lo < 0 {
		lo = 0
	}
	hi := i + 60
	ca, cb := a, b
	if hi < len(ca) {
		ca = ca[:hi]
	}
	if hi < len(cb) {
		cb = cb[:hi]
	}
	return fmt.Sprintf("at offset %d: ...%s... became ...%s...", i, ca[lo:], cb[lo:])
}

func (r *c18Runner) bodies() []func() {
	r.out = make([][]string, len(r.sc.Threads))
	r.midBad = ""
	r.sg.restore()
	var bs []func()
	for ti, th := range r.sc.Threads {
		ti, th := ti, th
		bs = append(bs, func() {
			for _, c := range th {
				r.out[ti] = append(r.out[ti], c.f(r.sh))
			}
		})
	}
	return bs
}

// verdict of the last execution.
func (r *c18Runner) verdict(err error) string {
	if err != nil {
		return err.Error()
	}
	for ti := range r.solo {
		for ci := range r.solo[ti] {
			got := "<missing>"
			if ci < len(r.out[ti]) {
				got = r.out[ti][ci]
			}
			if got != r.solo[ti][ci] {
				return fmt.Sprintf("thread %d call %s returned %s, alone it returns %s", ti, r.sc.Threads[ti][ci].name, got, r.solo[ti][ci])
			}
		}
	}
	if r.midBad != "" {
		return "shared state (operands, Context or package-level variables) was modified at a baton switch: " + r.midBad
	}
	if d := r.sh.dumpLocal(); d != r.sh.initLocal {
		return "shared state (operands or Context) differs after the execution: " + firstDiff(r.sh.initLocal, d)
	}
	// package-level state: an execution must end in the initial state or in the state some sequential order of
	// the same calls ends in (a correctly synchronised lazily built table passes, a table damaged by racing
	// initialisers does not). What the variables point to (lookup tables of hundreds of big integers) is
	// dumped whenever a variable's own memory changed, after every 256th execution and at the end of each
	// exploration: a modification behind pointers persists across executions, so it is detected at the next
	// dump (the report then names the last schedule, not necessarily the culprit).
	r.nexec++
	name := r.sg.changed()
	if name != "" || r.nexec%256 == 1 || r.forceGlobals {
		if d := r.sh.dump(); !r.allowed[d] {
			what := "package-level variables differ from their initial state"
			if name != "" {
				what = "package-level variable " + name + " was written during the execution and the package-level state"
			}
			if len(r.allowed) > 1 {
				what += " (and from the state after every sequential order of the same calls)"
			}
			return what + ": " + firstDiff(r.sh.init, d)
		}
	}
	return ""
}

func describeSchedule(x *sched.Exec) string {
	var parts []string
	for i, p := range x.Points {
		if p.Choice != 0 || p.Thread < 0 {
			site := ""
			if p.Site > 0 && p.Site < len(apd.VerifSites) {
				site = "@" + apd.VerifSites[p.Site]
			}
			parts = append(parts, fmt.Sprintf("point %d thread %d%s -> alt %d", i, p.Thread, site, p.Choice))
		}
	}
	return strings.Join(parts, "; ")
}

func c18Run(e *core.Env) {
	if err := c16LayoutOK(); err != nil {
		panic(err)
	}
	runtime.GOMAXPROCS(1)
	defer func() { apd.VerifYield, apd.VerifBlock = nil, nil }()
	scs := c18Scenarios()
	if e.R.Extra == nil {
		e.R.Extra = map[string]interface{}{}
	}
	const heavyOcc = 2
	for si, sc := range scs {
		if only := os.Getenv("VERIF_C18_ONLY"); only != "" && only != fmt.Sprint(si) {
			continue
		}
		bound := sc.Bound
		if e.Thorough() {
			bound = sc.BoundT
		}
		maxOcc := 0
		if sc.Heavy {
			maxOcc = heavyOcc
			if e.Thorough() {
				maxOcc = 4
			}
		}
		r := newRunner(sc, maxOcc)
		outcomes := map[string]bool{}
		var points int
		for b := 0; b <= bound; b++ {
			ex := &sched.Explorer{S: r.s, Bodies: r.bodies, Bound: b, Shard: e.Shard, NShards: e.NShards}
			if b < bound {
				// lower bounds are contained in the larger one; run them un-sharded only on worker 0 for the report
				if e.Shard != 0 || b > 0 {
					continue
				}
				ex.NShards = 1
			}
			ex.Check = func(x *sched.Exec, err error) {
				e.TransOnly(1)
				if len(x.Points) > points {
					points = len(x.Points)
				}
				outcomes[fmt.Sprint(r.out)] = true
				v := r.verdict(err)
				if v != "" {
					// determinism: the same schedule must fail the same way twice (package-level dump forced both times)
					sch := append([]int{}, x.Choices...)
					r.forceGlobals = true
					_, err1 := r.s.Run(r.bodies(), sch)
					v = r.verdict(err1)
					_, err2 := r.s.Run(r.bodies(), sch)
					v2 := r.verdict(err2)
					r.forceGlobals = false
					if v2 != v || v == "" {
						panic(fmt.Sprintf("non-deterministic replay of schedule %v in scenario %q: %q vs %q", trimZeros(sch), sc.Name, v, v2))
					}
					e.Fail("schedule/"+sc.Name, "schedule", c18Case{Scenario: sc.Name, Schedule: trimZeros(sch), MaxOcc: maxOcc, Kind: "schedule"},
						fmt.Sprintf("scenario %q, schedule [%s]: %s", sc.Name, describeSchedule(x), v))
				} else if e.WantSample() {
					e.Sample(fmt.Sprintf("scenario %q schedule [%s]: every thread returns its solo result, shared state unchanged", sc.Name, describeSchedule(x)))
				}
			}
			if e.Expired() {
				e.Cap("soft deadline before scenario " + sc.Name)
				break
			}
			t0 := time.Now()
			ex.Stop = e.Expired
			ex.Explore()
			if ex.Capped {
				e.Cap(fmt.Sprintf("soft deadline inside scenario %q at preemption bound %d after %d executions on this worker", sc.Name, b, ex.Execs))
			}
			// final global dump for this exploration
			r.forceGlobals = true
			r.s.Run(r.bodies(), nil)
			if v := r.verdict(nil); v != "" {
				e.Fail("schedule/"+sc.Name, "schedule", c18Case{Scenario: sc.Name, MaxOcc: maxOcc, Kind: "schedule"}, fmt.Sprintf("scenario %q after exploring bound %d: %s", sc.Name, b, v))
			}
			r.forceGlobals = false
			if os.Getenv("VERIF_DEBUG") != "" {
				fmt.Fprintf(os.Stderr, "shard %d scenario %d %q bound %d: %d executions, %d points, %v\n", e.Shard, si, sc.Name, b, ex.Execs, points, time.Since(t0))
			}
			e.State()
		}
		e.Outcome(fmt.Sprintf("scenario %02d distinct outcome vectors=%d", si, len(outcomes)), false)
		if len(outcomes) > 1 {
			e.Note("scenarios-with-more-than-one-outcome-vector")
		}
		if e.Shard == 0 {
			e.R.Extra[fmt.Sprintf("scenario_%02d", si)] = fmt.Sprintf("%s: threads=%d decision points in the default schedule=%d preemption bound=%d site-occurrence cap=%d", sc.Name, len(sc.Threads), points, bound, maxOcc)
		}
		if sc.Heavy {
			e.Cap(fmt.Sprintf("scenario %q: composite calls are preempted only at the first %d dynamic occurrences of each of their scheduling sites per thread (all sites covered, later loop iterations not)", sc.Name, maxOcc))
		}
	}
	// the free-running race pass: worker 0 launches the -race binary over the same bodies
	if e.Shard == 0 {
		c18RacePass(e)
	}
}

func trimZeros(s []int) []int {
	n := len(s)
	for n > 0 && s[n-1] == 0 {
		n--
	}
	return s[:n]
}

// c18FreeRun runs every scenario with real parallel goroutines (used by the -race binary).
func C18FreeRun(reps int) int {
	apd.VerifYield, apd.VerifBlock = nil, nil
	c18Sched = nil
	bad := 0
	for _, sc := range c18Scenarios() {
		sh := newShared(sc.P)
		defaultMode := strings.HasPrefix(sc.Name, "default rounding")
		if defaultMode {
			sh.ctx.Rounding = ""
			sh.init, sh.initLocal = sh.dump(), sh.dumpLocal()
		}
		// the concurrent runs come first: lazily initialised package state is then first touched concurrently
		var outs [][][]string
		for rep := 0; rep < reps; rep++ {
			var wg sync.WaitGroup
			start := make(chan struct{})
			if defaultMode {
				sh.ctx.Rounding = "" // every repetition starts from the unresolved default (a lazy resolution is first use each time)
			}
			out := make([][]string, len(sc.Threads))
			for ti, th := range sc.Threads {
				ti, th := ti, th
				wg.Add(1)
				go func() {
					defer wg.Done()
					<-start
					for _, c := range th {
						out[ti] = append(out[ti], c.f(sh))
					}
				}()
			}
			close(start)
			wg.Wait()
			if rep == 0 || fmt.Sprint(out) != fmt.Sprint(outs[len(outs)-1]) {
				outs = append(outs, out)
			}
		}
		var solo [][]string
		for _, th := range sc.Threads {
			var o []string
			for _, c := range th {
				o = append(o, c.f(sh))
			}
			solo = append(solo, o)
		}
		for _, out := range outs {
			if fmt.Sprint(out) != fmt.Sprint(solo) {
				fmt.Printf("FREE-RUN-MISMATCH scenario=%q got=%v want=%v\n", sc.Name, out, solo)
				bad++
				break
			}
		}
		if sh.dumpLocal() != sh.initLocal {
			fmt.Printf("FREE-RUN-SHARED-STATE-CHANGED scenario=%q\n", sc.Name)
			bad++
		}
	}
	return bad
}

func c18RacePass(e *core.Env) {
	self, _ := os.Executable()
	race := filepath.Join(filepath.Dir(self), "vcheck-race")
	if _, err := os.Stat(race); err != nil {
		panic("race binary missing: " + race + " (run.sh builds it)")
	}
	reps := "300"
	if e.Thorough() {
		reps = "2000"
	}
	cmd := exec.Command(race, "race-pass", "--reps", reps)
	cmd.Env = append(os.Environ(), "GOMAXPROCS=16", "GORACE=halt_on_error=0 exitcode=66")
	var buf bytes.Buffer
	cmd.Stdout, cmd.Stderr = &buf, &buf
	err := cmd.Run()
	out := buf.String()
	nrace := strings.Count(out, "WARNING: DATA RACE")
	e.R.Extra["race_pass"] = fmt.Sprintf("free-running -race build, %s repetitions per scenario, 16 OS threads: %d data race reports, exit=%v", reps, nrace, err)
	e.TransOnly(1)
	if nrace > 0 || strings.Contains(out, "FREE-RUN-") {
		msg := out
		if len(msg) > 3000 {
			msg = msg[:3000]
		}
		e.Fail("race-pass", "race", c18Case{Kind: "race"}, "free-running race pass: "+msg)
	} else if err != nil {
		panic("race pass failed to run: " + err.Error() + "\n" + out)
	}
	e.Outcome("race-pass", false)
}

func c18Replay(kind string, raw json.RawMessage) string {
	var c c18Case
	if err := json.Unmarshal(raw, &c); err != nil {
		return "bad replay file"
	}
	if c.Kind == "race" {
		return "re-run ./run.sh C18 (the race pass has no single schedule)"
	}
	if err := c16LayoutOK(); err != nil {
		return err.Error()
	}
	runtime.GOMAXPROCS(1)
	defer func() { apd.VerifYield, apd.VerifBlock = nil, nil }()
	for _, sc := range c18Scenarios() {
		if sc.Name != c.Scenario {
			continue
		}
		r := newRunner(sc, c.MaxOcc)
		r.forceGlobals = true
		_, err := r.s.Run(r.bodies(), c.Schedule)
		v1 := r.verdict(err)
		_, err = r.s.Run(r.bodies(), c.Schedule)
		v2 := r.verdict(err)
		if v1 != v2 {
			return "non-deterministic replay: " + v1 + " / " + v2
		}
		return v1
	}
	return "unknown scenario " + c.Scenario
}

func init() {
	globalsDumpFn = globalsDump
	core.RacePass = C18FreeRun
	core.Register(&core.Prop{
		ID:    "C18",
		Title: "A Context and its operands can be shared by concurrent goroutines",
		Rule:  "stateless model checking of the real code under a cooperative scheduler: 2-3 goroutines x 1-2 calls sharing one *Context and the same operand Decimals; every schedule within the preemption bound at statement-level scheduling points of the instrumented overlay is executed; per schedule every thread's result must equal its solo result the deep snapshot of shared operands and Context must be unchanged at every baton switch and at the end, and the package-level state (every variable and everything reachable from it, restored in place before every execution) must end in the initial state or in the state some sequential order of the same calls ends in; sync.Mutex/RWMutex/Once block through the scheduler (no enabled thread = deadlock = violation); plus a separate free-running -race pass over the same bodies",
		Bounds: func(tier string) string {
			return fmt.Sprintf("%d scenarios; cheap scenarios: every dynamic scheduling point, preemption bound 1-2 (thorough 2); composite scenarios (Sqrt, Ln, Log10, Exp, Cbrt, Pow): every scheduling site at its first 2 (thorough 4) dynamic occurrences per thread, preemption bound 1; race pass: 300 (thorough 2000) free-running repetitions per scenario on 16 OS threads", len(c18Scenarios()))
		},
		Run:    c18Run,
		Replay: c18Replay,
		Shadow: true,
		Assumptions: []string{
			"statement-granularity sequential consistency; weak-memory effects are left to the race detector pass",
			"T <= 3 goroutines, <= 2 calls each; the general claim rests on: no shared location is ever written (checked on the current tree: the set of admissible final package states has one element) => all interleavings are equivalent to the sequential one",
		},
	})
}
