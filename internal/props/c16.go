package props

import (
	"bytes"
	"encoding/json"
	"fmt"
	"math/big"
	"math/rand"
	"reflect"
	"sort"
	"strings"
	"unsafe"

	"github.com/cockroachdb/apd/v3"

	"verif/internal/core"
)

// C16: BigInt behaves exactly like math/big.Int. Explicit-state BFS over method
// sequences on one receiver, mirrored on a *big.Int object graph with the same aliasing.

// bigIntLayout mirrors apd.BigInt's memory layout (checked by reflection at start-up).
type bigIntLayout struct {
	inner  *big.Int
	inline [2]big.Word
}

var c16Sentinel *big.Int

func c16LayoutOK() error {
	t := reflect.TypeOf(apd.BigInt{})
	if t.NumField() != 2 || t.Field(0).Name != "_inner" || t.Field(1).Name != "_inline" ||
		t.Field(0).Type != reflect.TypeOf((*big.Int)(nil)) || t.Field(1).Type.Kind() != reflect.Array ||
		t.Size() != unsafe.Sizeof(bigIntLayout{}) {
		return fmt.Errorf("apd.BigInt layout changed: %v", t)
	}
	c16Sentinel = (*bigIntLayout)(unsafe.Pointer(apd.NewBigInt(-1))).inner
	if c16Sentinel == nil {
		return fmt.Errorf("negative inline values no longer use a sentinel")
	}
	return nil
}

func peek(z *apd.BigInt) *bigIntLayout { return (*bigIntLayout)(unsafe.Pointer(z)) }

func reprClass(z *apd.BigInt) string {
	l := peek(z)
	switch {
	case l.inner == nil:
		return "inline+"
	case l.inner == c16Sentinel:
		return "inline-"
	default:
		b := l.inner.Bits()
		if len(b) <= 2 {
			return "heap-small"
		}
		return "heap"
	}
}

// invariants of the representation.
func reprInvariant(z *apd.BigInt) string {
	l := peek(z)
	switch {
	case l.inner == c16Sentinel:
		if l.inline[0] == 0 && l.inline[1] == 0 {
			return "negative sentinel on a zero value (negative zero)"
		}
	case l.inner != nil:
		b := l.inner.Bits()
		if len(b) > 0 && &b[0] == &l.inline[0] {
			return "heap big.Int points into the inline array"
		}
	}
	return ""
}

// argument spec: index into the alphabet (-1 = the receiver itself), heap-backed or not.
type c16Arg struct {
	Idx  int  `json:"idx"`
	Heap bool `json:"heap,omitempty"`
}

type c16Step struct {
	Op   string   `json:"op"`
	Args []c16Arg `json:"args,omitempty"`
	N    int64    `json:"n,omitempty"`
	M    int64    `json:"m,omitempty"`
	S    string   `json:"s,omitempty"`
}

func (s c16Step) String() string {
	var a []string
	for _, x := range s.Args {
		if x.Idx < 0 {
			a = append(a, "z")
		} else {
			t := c16Alphabet[x.Idx].String()
			if len(t) > 24 {
				t = t[:10] + "…" + t[len(t)-6:]
			}
			if x.Heap {
				t += "(heap)"
			}
			a = append(a, t)
		}
	}
	r := s.Op + "(" + strings.Join(a, ",")
	if s.N != 0 || s.M != 0 {
		r += fmt.Sprintf(";%d,%d", s.N, s.M)
	}
	if s.S != "" {
		r += ";" + s.S
	}
	return r + ")"
}

var c16Alphabet []*big.Int
var c16Small []int // indices of the reduced alphabet A2
var c16Tiny []int  // indices of A3

func init() {
	add := func(b *big.Int) {
		for _, x := range c16Alphabet {
			if x.Cmp(b) == 0 {
				return
			}
		}
		c16Alphabet = append(c16Alphabet, b)
	}
	pm := func(b *big.Int) { add(b); add(new(big.Int).Neg(b)) }
	for _, v := range []int64{0, 1, 2, 5, 10, 7} {
		pm(big.NewInt(v))
	}
	for _, n := range []uint{31, 32, 63, 64, 127, 128} {
		for _, d := range []int64{-1, 0, 1} {
			pm(new(big.Int).Add(pow2(n), big.NewInt(d)))
		}
	}
	pm(bigOf("10000000000000000000"))
	pm(bigOf("100000000000000000000000000000000000000"))
	pm(bigOf("1000000000000000000000000000000000000000"))
	pm(pow2(200))
	pm(new(big.Int).Add(pow2(200), big.NewInt(1)))
	idx := func(b *big.Int) int {
		for i, x := range c16Alphabet {
			if x.Cmp(b) == 0 {
				return i
			}
		}
		panic("not in alphabet")
	}
	for _, b := range []*big.Int{big.NewInt(0), big.NewInt(1), big.NewInt(-1), big.NewInt(-5), big.NewInt(10), pow2(63), new(big.Int).Neg(pow2(63)),
		new(big.Int).Sub(pow2(64), big.NewInt(1)), pow2(64), new(big.Int).Neg(pow2(64)), new(big.Int).Sub(pow2(128), big.NewInt(1)), pow2(128), new(big.Int).Neg(new(big.Int).Add(pow2(128), big.NewInt(1))), pow2(200)} {
		c16Small = append(c16Small, idx(b))
	}
	for _, b := range []*big.Int{big.NewInt(0), big.NewInt(-1), big.NewInt(10), pow2(64), new(big.Int).Neg(pow2(128))} {
		c16Tiny = append(c16Tiny, idx(b))
	}
}

func mkBig(a c16Arg) (*apd.BigInt, *big.Int) {
	v := c16Alphabet[a.Idx]
	z := new(apd.BigInt).SetMathBigInt(v)
	if a.Heap {
		z.Lsh(z, 200)
		z.Rsh(z, 200)
	}
	return z, new(big.Int).Set(v)
}

type pair struct {
	z *apd.BigInt
	m *big.Int
}

var c16Binary = []string{"Add", "Sub", "Mul", "Quo", "Rem", "Div", "Mod", "And", "AndNot", "Or", "Xor", "GCD", "QuoRem", "QuoRemAliasX", "DivMod", "ModInverse", "ExpMod"}
var c16Unary = []string{"Abs", "Neg", "Not", "Set", "Sqrt"}
var c16Shifts = []int64{0, 1, 63, 64, 65, 127, 128, 129, 200}

// c16Apply executes one step on the apd receiver and on the mirror, with the same aliasing.
// It returns a mismatch description, whether both panicked, or "".
func c16Apply(p pair, st c16Step) (msg string, bothPanicked bool) {
	args := make([]pair, len(st.Args))
	orig := make([]*big.Int, len(st.Args))
	for i, a := range st.Args {
		if a.Idx < 0 {
			args[i] = p
			continue
		}
		// identical spec => identical object (x == y aliasing)
		shared := false
		for j := 0; j < i; j++ {
			if st.Args[j] == a {
				args[i] = args[j]
				shared = true
			}
		}
		if !shared {
			z, m := mkBig(a)
			args[i] = pair{z, m}
		}
		orig[i] = new(big.Int).Set(c16Alphabet[a.Idx])
	}
	var extraZ *apd.BigInt
	var extraM *big.Int
	var retZ, retM interface{}
	run := func(f func()) (pan string) {
		defer func() {
			if r := recover(); r != nil {
				pan = fmt.Sprint(r)
			}
		}()
		f()
		return ""
	}
	z, m := p.z, p.m
	var fz, fm func()
	A := func(i int) *apd.BigInt { return args[i].z }
	B := func(i int) *big.Int { return args[i].m }
	switch st.Op {
	case "Add":
		fz, fm = func() { retZ = z.Add(A(0), A(1)) }, func() { retM = m.Add(B(0), B(1)) }
	case "Sub":
		fz, fm = func() { retZ = z.Sub(A(0), A(1)) }, func() { retM = m.Sub(B(0), B(1)) }
	case "Mul":
		fz, fm = func() { retZ = z.Mul(A(0), A(1)) }, func() { retM = m.Mul(B(0), B(1)) }
	case "Quo":
		fz, fm = func() { retZ = z.Quo(A(0), A(1)) }, func() { retM = m.Quo(B(0), B(1)) }
	case "Rem":
		fz, fm = func() { retZ = z.Rem(A(0), A(1)) }, func() { retM = m.Rem(B(0), B(1)) }
	case "Div":
		fz, fm = func() { retZ = z.Div(A(0), A(1)) }, func() { retM = m.Div(B(0), B(1)) }
	case "Mod":
		fz, fm = func() { retZ = z.Mod(A(0), A(1)) }, func() { retM = m.Mod(B(0), B(1)) }
	case "And":
		fz, fm = func() { retZ = z.And(A(0), A(1)) }, func() { retM = m.And(B(0), B(1)) }
	case "AndNot":
		fz, fm = func() { retZ = z.AndNot(A(0), A(1)) }, func() { retM = m.AndNot(B(0), B(1)) }
	case "Or":
		fz, fm = func() { retZ = z.Or(A(0), A(1)) }, func() { retM = m.Or(B(0), B(1)) }
	case "Xor":
		fz, fm = func() { retZ = z.Xor(A(0), A(1)) }, func() { retM = m.Xor(B(0), B(1)) }
	case "GCD":
		fz, fm = func() { retZ = z.GCD(nil, nil, A(0), A(1)) }, func() { retM = m.GCD(nil, nil, B(0), B(1)) }
	case "QuoRem":
		extraZ, extraM = new(apd.BigInt).SetInt64(99), big.NewInt(99)
		fz, fm = func() { retZ, _ = z.QuoRem(A(0), A(1), extraZ) }, func() { retM, _ = m.QuoRem(B(0), B(1), extraM) }
	case "QuoRemAliasX":
		// second output aliases x (supported by math/big); only meaningful when x is not the receiver
		if st.Args[0].Idx < 0 || st.Args[0] == st.Args[1] {
			return "", false
		}
		extraZ, extraM = A(0), B(0)
		orig[0] = nil
		fz, fm = func() { retZ, _ = z.QuoRem(A(0), A(1), extraZ) }, func() { retM, _ = m.QuoRem(B(0), B(1), extraM) }
	case "DivMod":
		extraZ, extraM = new(apd.BigInt).SetInt64(99), big.NewInt(99)
		fz, fm = func() { retZ, _ = z.DivMod(A(0), A(1), extraZ) }, func() { retM, _ = m.DivMod(B(0), B(1), extraM) }
	case "ModInverse":
		fz, fm = func() { retZ = z.ModInverse(A(0), A(1)) }, func() { retM = m.ModInverse(B(0), B(1)) }
	case "ExpMod":
		// x^N mod |y| for N in {0,1,2,-1,7} (y may be zero => plain power); small fixed exponents keep results bounded
		e7z, e7m := apd.NewBigInt(st.N), big.NewInt(st.N)
		fz, fm = func() { retZ = z.Exp(A(0), e7z, A(1)) }, func() { retM = m.Exp(B(0), e7m, B(1)) }
	case "Abs":
		fz, fm = func() { retZ = z.Abs(A(0)) }, func() { retM = m.Abs(B(0)) }
	case "Neg":
		fz, fm = func() { retZ = z.Neg(A(0)) }, func() { retM = m.Neg(B(0)) }
	case "Not":
		fz, fm = func() { retZ = z.Not(A(0)) }, func() { retM = m.Not(B(0)) }
	case "Set":
		fz, fm = func() { retZ = z.Set(A(0)) }, func() { retM = m.Set(B(0)) }
	case "Sqrt":
		fz, fm = func() { retZ = z.Sqrt(A(0)) }, func() { retM = m.Sqrt(B(0)) }
	case "Lsh":
		fz, fm = func() { retZ = z.Lsh(A(0), uint(st.N)) }, func() { retM = m.Lsh(B(0), uint(st.N)) }
	case "Rsh":
		fz, fm = func() { retZ = z.Rsh(A(0), uint(st.N)) }, func() { retM = m.Rsh(B(0), uint(st.N)) }
	case "SetBit":
		fz, fm = func() { retZ = z.SetBit(A(0), int(st.N), uint(st.M)) }, func() { retM = m.SetBit(B(0), int(st.N), uint(st.M)) }
	case "SetInt64":
		fz, fm = func() { retZ = z.SetInt64(st.N) }, func() { retM = m.SetInt64(st.N) }
	case "SetUint64":
		fz, fm = func() { retZ = z.SetUint64(uint64(st.N)) }, func() { retM = m.SetUint64(uint64(st.N)) }
	case "SetString":
		var okz, okm bool
		fz = func() {
			var r *apd.BigInt
			r, okz = z.SetString(st.S, int(st.N))
			retZ = r
			if !okz {
				retZ = (*apd.BigInt)(nil)
			}
		}
		fm = func() {
			var r *big.Int
			r, okm = m.SetString(st.S, int(st.N))
			retM = r
			if !okm {
				retM = (*big.Int)(nil)
			}
		}
	case "SetBytes":
		fz, fm = func() { retZ = z.SetBytes([]byte(st.S)) }, func() { retM = m.SetBytes([]byte(st.S)) }
	case "SetBits":
		w := make([]big.Word, st.N)
		for i := range w {
			w[i] = big.Word(st.M + int64(i))
		}
		w2 := append([]big.Word{}, w...)
		fz, fm = func() { retZ = z.SetBits(w) }, func() { retM = m.SetBits(w2) }
	case "ModSqrtP":
		// z.ModSqrt(x, p) with x = N and the prime p = S (math/big leaves non-prime moduli undefined)
		xz, xm := apd.NewBigInt(st.N), big.NewInt(st.N)
		pz, _ := new(apd.BigInt).SetString(st.S, 10)
		pm, _ := new(big.Int).SetString(st.S, 10)
		fz, fm = func() { retZ = z.ModSqrt(xz, pz) }, func() { retM = m.ModSqrt(xm, pm) }
	case "SqrtS":
		// z.Sqrt(x) for the decimal string S (values next to perfect squares beyond 2^53)
		xz, _ := new(apd.BigInt).SetString(st.S, 10)
		xm, _ := new(big.Int).SetString(st.S, 10)
		fz, fm = func() { retZ = z.Sqrt(xz) }, func() { retM = m.Sqrt(xm) }
	case "Binomial":
		fz, fm = func() { retZ = z.Binomial(st.N, st.M) }, func() { retM = m.Binomial(st.N, st.M) }
	case "MulRange":
		fz, fm = func() { retZ = z.MulRange(st.N, st.M) }, func() { retM = m.MulRange(st.N, st.M) }
	case "SetMathBigInt":
		v := c16Alphabet[st.N]
		fz, fm = func() { retZ = z.SetMathBigInt(v) }, func() { retM = m.Set(v) }
	case "TextRoundTrip":
		// MarshalText -> UnmarshalText, MarshalJSON -> UnmarshalJSON, GobEncode -> GobDecode on the receiver
		fz = func() {
			t, err := z.MarshalText()
			if err != nil {
				panic(err)
			}
			if err := z.UnmarshalText(t); err != nil {
				panic(err)
			}
			j, err := z.MarshalJSON()
			if err != nil {
				panic(err)
			}
			if err := z.UnmarshalJSON(j); err != nil {
				panic(err)
			}
			g, err := z.GobEncode()
			if err != nil {
				panic(err)
			}
			if err := z.GobDecode(g); err != nil {
				panic(err)
			}
			retZ = z
		}
		fm = func() { retM = m }
	case "UnmarshalText", "UnmarshalJSON":
		// error parity and value parity with math/big (which parses these texts with base 0)
		var ez, em error
		fz = func() {
			if st.Op == "UnmarshalText" {
				ez = z.UnmarshalText([]byte(st.S))
			} else {
				ez = z.UnmarshalJSON([]byte(st.S))
			}
			retZ = z
		}
		fm = func() {
			if st.Op == "UnmarshalText" {
				em = m.UnmarshalText([]byte(st.S))
			} else {
				em = m.UnmarshalJSON([]byte(st.S))
			}
			retM = m
		}
		if pz, pm := run(fz), run(fm); pz != "" || pm != "" {
			if (pz != "") != (pm != "") {
				return fmt.Sprintf("panic parity: BigInt panic=%q, big.Int panic=%q", pz, pm), false
			}
			return "", true
		}
		if (ez == nil) != (em == nil) {
			return fmt.Sprintf("%s(%q): BigInt error %v, big.Int error %v", st.Op, st.S, ez, em), false
		}
		if ez != nil {
			// after a failed parse math/big leaves the receiver undefined
			return "", true
		}
		if msg := c16Observe(z, m); msg != "" {
			return "receiver: " + msg, false
		}
		return "", false
	case "Scan":
		fz = func() {
			if _, err := fmt.Sscan(st.S, z); err != nil {
				panic("scan error")
			}
			retZ = z
		}
		fm = func() {
			if _, err := fmt.Sscan(st.S, m); err != nil {
				panic("scan error")
			}
			retM = m
		}
	case "Rand":
		fz = func() { retZ = z.Rand(rand.New(rand.NewSource(st.N)), A(0)) }
		fm = func() { retM = m.Rand(rand.New(rand.NewSource(st.N)), B(0)) }
	default:
		panic("c16Apply: unknown op " + st.Op)
	}
	pz := run(fz)
	pm := run(fm)
	if (pz != "") != (pm != "") {
		return fmt.Sprintf("panic parity: BigInt panic=%q, big.Int panic=%q", pz, pm), false
	}
	if pz != "" {
		return "", true
	}
	// returned pointer: receiver or nil, like math/big
	rzNil := retZ == nil || reflect.ValueOf(retZ).IsNil()
	rmNil := retM == nil || reflect.ValueOf(retM).IsNil()
	if rzNil != rmNil {
		return fmt.Sprintf("returned nil-ness differs: BigInt nil=%v, big.Int nil=%v", rzNil, rmNil), false
	}
	if !rzNil {
		if rp, ok := retZ.(*apd.BigInt); ok && rp != z {
			return "method did not return its receiver", false
		}
	}
	if rzNil && st.Op == "SetString" {
		// math/big: after a failed SetString "the value of z is undefined"; nothing may be
		// observed and the state is terminal (reported to the caller like a panic on both sides).
		return "", true
	}
	if msg := c16Observe(z, m); msg != "" {
		return "receiver: " + msg, false
	}
	if extraZ != nil {
		if msg := c16Observe(extraZ, extraM); msg != "" {
			return "second output: " + msg, false
		}
	}
	for i := range args {
		if st.Args[i].Idx < 0 || orig[i] == nil {
			continue
		}
		if args[i].z.MathBigInt().Cmp(orig[i]) != 0 {
			return fmt.Sprintf("argument %d was modified: now %s", i, args[i].z.String()), false
		}
		if msg := reprInvariant(args[i].z); msg != "" {
			return fmt.Sprintf("argument %d: %s", i, msg), false
		}
	}
	return "", false
}

// c16Observe compares every read-only observer of z with the mirror m.
func c16Observe(z *apd.BigInt, m *big.Int) (msg string) {
	defer func() {
		if r := recover(); r != nil {
			msg = fmt.Sprintf("observer panics: %v (value per MathBigInt %s, repr %s)", r, z.MathBigInt(), reprClass(z))
		}
	}()
	if msg := reprInvariant(z); msg != "" {
		return msg
	}
	if v := z.MathBigInt(); v.Cmp(m) != 0 {
		return fmt.Sprintf("value %s, want %s", v, m)
	}
	if v := z.MathBigInt(); v.Sign() == 0 && v.String() != "0" {
		return "MathBigInt returns a negative zero"
	}
	if a, b := z.Sign(), m.Sign(); a != b {
		return fmt.Sprintf("Sign %d, want %d", a, b)
	}
	if a, b := z.BitLen(), m.BitLen(); a != b {
		return fmt.Sprintf("BitLen %d, want %d", a, b)
	}
	var zero apd.BigInt
	if a, b := z.Cmp(&zero), m.Cmp(new(big.Int)); a != b {
		return fmt.Sprintf("Cmp(0) %d, want %d", a, b)
	}
	if a := z.Cmp(z); a != 0 {
		return fmt.Sprintf("Cmp(self) %d", a)
	}
	if a, b := z.String(), m.String(); a != b {
		return fmt.Sprintf("String %q, want %q", a, b)
	}
	if a, b := z.IsInt64(), m.IsInt64(); a != b {
		return fmt.Sprintf("IsInt64 %v, want %v", a, b)
	}
	if a, b := z.IsUint64(), m.IsUint64(); a != b {
		return fmt.Sprintf("IsUint64 %v, want %v", a, b)
	}
	if a, b := z.Int64(), m.Int64(); a != b {
		return fmt.Sprintf("Int64 %d, want %d", a, b)
	}
	if a, b := z.Uint64(), m.Uint64(); a != b {
		return fmt.Sprintf("Uint64 %d, want %d", a, b)
	}
	if a, b := z.Bit(0), m.Bit(0); a != b {
		return fmt.Sprintf("Bit(0) %d, want %d", a, b)
	}
	if !c16FullObs {
		return ""
	}
	if a, b := z.CmpAbs(&zero), m.CmpAbs(new(big.Int)); a != b {
		return fmt.Sprintf("CmpAbs(0) %d, want %d", a, b)
	}
	for _, o := range c16Probe {
		if a, b := z.Cmp(o.z), m.Cmp(o.m); a != b {
			return fmt.Sprintf("Cmp(%s) %d, want %d", o.m, a, b)
		}
		if a, b := z.CmpAbs(o.z), m.CmpAbs(o.m); a != b {
			return fmt.Sprintf("CmpAbs(%s) %d, want %d", o.m, a, b)
		}
		if a, b := o.z.Cmp(z), o.m.Cmp(m); a != b {
			return fmt.Sprintf("(%s).Cmp(z) %d, want %d", o.m, a, b)
		}
		if a, b := o.z.CmpAbs(z), o.m.CmpAbs(m); a != b {
			return fmt.Sprintf("(%s).CmpAbs(z) %d, want %d", o.m, a, b)
		}
	}
	if a, b := z.String(), m.String(); a != b {
		return fmt.Sprintf("String %q, want %q", a, b)
	}
	for _, base := range []int{2, 10, 16, 36, 62} {
		if a, b := z.Text(base), m.Text(base); a != b {
			return fmt.Sprintf("Text(%d) %q, want %q", base, a, b)
		}
		if a, b := z.Append([]byte("x"), base), m.Append([]byte("x"), base); !bytes.Equal(a, b) {
			return fmt.Sprintf("Append(%d) %q, want %q", base, a, b)
		}
	}
	if a, b := z.Bytes(), m.Bytes(); !bytes.Equal(a, b) {
		return fmt.Sprintf("Bytes %x, want %x", a, b)
	}
	{
		a, b := z.Bits(), m.Bits()
		if len(a) != len(b) {
			return fmt.Sprintf("Bits length %d, want %d", len(a), len(b))
		}
		for i := range a {
			if a[i] != b[i] {
				return "Bits differ"
			}
		}
	}
	if a, b := z.IsInt64(), m.IsInt64(); a != b {
		return fmt.Sprintf("IsInt64 %v, want %v", a, b)
	}
	if a, b := z.IsUint64(), m.IsUint64(); a != b {
		return fmt.Sprintf("IsUint64 %v, want %v", a, b)
	}
	if a, b := z.Int64(), m.Int64(); a != b {
		return fmt.Sprintf("Int64 %d, want %d", a, b)
	}
	if a, b := z.Uint64(), m.Uint64(); a != b {
		return fmt.Sprintf("Uint64 %d, want %d", a, b)
	}
	for _, i := range []int{0, 1, 63, 64, 127, 128, 200} {
		if a, b := z.Bit(i), m.Bit(i); a != b {
			return fmt.Sprintf("Bit(%d) %d, want %d", i, a, b)
		}
	}
	if a, b := z.TrailingZeroBits(), m.TrailingZeroBits(); a != b {
		return fmt.Sprintf("TrailingZeroBits %d, want %d", a, b)
	}
	if a, b := z.ProbablyPrime(2), m.ProbablyPrime(2); a != b {
		return fmt.Sprintf("ProbablyPrime %v, want %v", a, b)
	}
	{
		a, ea := z.MarshalText()
		b, eb := m.MarshalText()
		if !bytes.Equal(a, b) || (ea == nil) != (eb == nil) {
			return fmt.Sprintf("MarshalText %q, want %q", a, b)
		}
		a, ea = z.MarshalJSON()
		b, eb = m.MarshalJSON()
		if !bytes.Equal(a, b) || (ea == nil) != (eb == nil) {
			return fmt.Sprintf("MarshalJSON %q, want %q", a, b)
		}
		a, ea = z.GobEncode()
		b, eb = m.GobEncode()
		if !bytes.Equal(a, b) || (ea == nil) != (eb == nil) {
			return fmt.Sprintf("GobEncode %x, want %x", a, b)
		}
	}
	for _, f := range []string{"%d", "%x", "%s", "%v", "%+d", "%#x", "%012d", "%-8dx", "% d", "%o", "%b", "%X"} {
		if a, b := fmt.Sprintf(f, z), fmt.Sprintf(f, m); a != b {
			return fmt.Sprintf("Format(%s) %q, want %q", f, a, b)
		}
	}
	n := (m.BitLen() + 7) / 8
	if a, b := z.FillBytes(make([]byte, n+2)), m.FillBytes(make([]byte, n+2)); !bytes.Equal(a, b) {
		return "FillBytes differs"
	}
	if z.Size() == 0 {
		return "Size is zero"
	}
	return ""
}

// c16FullObs selects the full observer suite (every level-0 transition and every newly
// discovered state) or the light one (value, sign, bit length, text, 64-bit conversions).
var c16FullObs = true

var c16Probe []struct {
	z *apd.BigInt
	m *big.Int
}

func c16Key(z *apd.BigInt) string {
	l := peek(z)
	k := z.MathBigInt().String() + "|" + reprClass(z)
	if l.inner != nil && l.inner != c16Sentinel {
		b := l.inner.Bits()
		if cap(b) > len(b) {
			k += "|slack"
		}
	}
	return k
}

// c16Steps enumerates the transitions applied to a state, with arguments from the index set idx.
func c16Steps(idx []int, full bool) []c16Step {
	var out []c16Step
	var argset []c16Arg
	argset = append(argset, c16Arg{Idx: -1})
	for _, i := range idx {
		argset = append(argset, c16Arg{Idx: i})
		if c16Alphabet[i].BitLen() <= 128 {
			argset = append(argset, c16Arg{Idx: i, Heap: true})
		}
	}
	for _, op := range c16Binary {
		for _, a := range argset {
			for _, b := range argset {
				st := c16Step{Op: op, Args: []c16Arg{a, b}}
				if op == "ExpMod" {
					// x^n mod |m| for the trivial, small and negative exponents (m = 0 => plain power, n <= 0 => 1;
					// a negative n with a modulus is the power of the modular inverse, nil when there is none)
					for _, n := range []int64{0, 1, 2, -1} {
						sn := st
						sn.N = n
						out = append(out, sn)
					}
					st.N = 7
				}
				out = append(out, st)
			}
		}
	}
	for _, op := range c16Unary {
		for _, a := range argset {
			out = append(out, c16Step{Op: op, Args: []c16Arg{a}})
		}
	}
	for _, a := range argset {
		for _, n := range c16Shifts {
			out = append(out, c16Step{Op: "Lsh", Args: []c16Arg{a}, N: n}, c16Step{Op: "Rsh", Args: []c16Arg{a}, N: n})
			if full || a.Idx < 0 {
				out = append(out, c16Step{Op: "SetBit", Args: []c16Arg{a}, N: n, M: 1}, c16Step{Op: "SetBit", Args: []c16Arg{a}, N: n, M: 0})
			}
		}
		out = append(out, c16Step{Op: "Rand", Args: []c16Arg{a}, N: 42})
	}
	for _, v := range []int64{0, 1, -1, 1 << 62, -1 << 63, 1<<63 - 1} {
		out = append(out, c16Step{Op: "SetInt64", N: v}, c16Step{Op: "SetUint64", N: v})
	}
	for _, s := range []string{"0", "-0", "+7", "-9223372036854775808", "9223372036854775808", "18446744073709551616", "-340282366920938463463374607431768211456", "ff", "1_000", "", "12x"} {
		out = append(out, c16Step{Op: "SetString", S: s, N: 10}, c16Step{Op: "SetString", S: s, N: 16}, c16Step{Op: "SetString", S: s, N: 0})
	}
	for _, s := range []string{"", "\x00", "\x01", "\xff\xff\xff\xff\xff\xff\xff\xff", "\x01\x00\x00\x00\x00\x00\x00\x00\x00", strings.Repeat("\xab", 16), strings.Repeat("\xab", 17), strings.Repeat("\x00", 20) + "\x07"} {
		out = append(out, c16Step{Op: "SetBytes", S: s})
	}
	for n := int64(0); n <= 3; n++ {
		out = append(out, c16Step{Op: "SetBits", N: n, M: 1}, c16Step{Op: "SetBits", N: n, M: -3})
	}
	out = append(out, c16Step{Op: "Binomial", N: 10, M: 3}, c16Step{Op: "Binomial", N: 200, M: 100}, c16Step{Op: "Binomial", N: 5, M: 7},
		c16Step{Op: "MulRange", N: 1, M: 20}, c16Step{Op: "MulRange", N: 1, M: 40}, c16Step{Op: "MulRange", N: -3, M: 3}, c16Step{Op: "MulRange", N: 5, M: 2},
		c16Step{Op: "TextRoundTrip"}, c16Step{Op: "Scan", S: "-12345678901234567890123456789012345678901"}, c16Step{Op: "Scan", S: "17"}, c16Step{Op: "Scan", S: "zz"})
	for i := range c16Alphabet {
		if full || i%5 == 0 {
			out = append(out, c16Step{Op: "SetMathBigInt", N: int64(i)})
		}
	}
	for _, t := range []string{"0", "12", "-7", "0x1F", "0X1f", "0755", "08", "1_000", "0b101", "-0o17", "+5", "", " 1", "1e3", "340282366920938463463374607431768211456", "-0x10000000000000000"} {
		out = append(out, c16Step{Op: "UnmarshalText", S: t}, c16Step{Op: "UnmarshalJSON", S: t})
	}
	out = append(out, c16Step{Op: "UnmarshalJSON", S: "null"}, c16Step{Op: "UnmarshalJSON", S: "\"12\""})
	return out
}

// c16Build replays a path on a fresh receiver and mirror.
func c16Build(path []c16Step) (pair, string) {
	p := pair{new(apd.BigInt), new(big.Int)}
	for _, st := range path {
		msg, pan := c16Apply(p, st)
		if msg != "" {
			return p, msg
		}
		if pan {
			return p, "path step panicked on replay: " + st.String()
		}
	}
	return p, ""
}

type c16Case struct {
	Path []c16Step `json:"path"`
}

func pathString(p []c16Step) string {
	var s []string
	for _, st := range p {
		s = append(s, "z."+st.String())
	}
	return strings.Join(s, " ; ")
}

func c16Run(e *core.Env) {
	if err := c16LayoutOK(); err != nil {
		panic(err)
	}
	for _, v := range []*big.Int{big.NewInt(0), big.NewInt(1), big.NewInt(-1), big.NewInt(10), pow2(63), pow2(64), new(big.Int).Neg(pow2(64)), pow2(130)} {
		c16Probe = append(c16Probe, struct {
			z *apd.BigInt
			m *big.Int
		}{new(apd.BigInt).SetMathBigInt(v), v})
	}
	all := make([]int, len(c16Alphabet))
	for i := range all {
		all[i] = i
	}
	// level-0 states: zero value and every alphabet member in every representation
	type node struct {
		path []c16Step
	}
	var frontier []node
	frontier = append(frontier, node{})
	for i := range c16Alphabet {
		frontier = append(frontier, node{[]c16Step{{Op: "SetMathBigInt", N: int64(i)}}})
		if c16Alphabet[i].BitLen() <= 128 {
			frontier = append(frontier, node{[]c16Step{{Op: "SetMathBigInt", N: int64(i)}, {Op: "Lsh", Args: []c16Arg{{Idx: -1}}, N: 200}, {Op: "Rsh", Args: []c16Arg{{Idx: -1}}, N: 200}}})
		}
	}
	depth := 2
	if e.Thorough() {
		depth = 3
	}
	seen := map[string]bool{}
	level0 := c16Steps(c16Small, true)
	level1 := c16Steps(c16Tiny, false)
	level2 := c16Steps(c16Tiny, false)
	maxDepth := 0
	for lvl := 0; lvl < depth; lvl++ {
		steps := level0
		if lvl == 1 {
			steps = level1
		} else if lvl >= 2 {
			steps = level2
		}
		var next []node
		for ni, nd := range frontier {
			if lvl == 0 && !e.Mine(int64(ni)) {
				continue
			}
			if e.Expired() {
				e.Cap(fmt.Sprintf("soft deadline at BFS level %d", lvl))
				break
			}
			c16FullObs = false
			base, msg := c16Build(nd.path)
			c16FullObs = true
			if msg != "" {
				e.Fail("path", "c16", c16Case{nd.path}, pathString(nd.path)+": "+msg)
				continue
			}
			k := c16Key(base.z)
			if lvl == 0 {
				if seen[k] {
					continue
				}
				seen[k] = true
				e.State()
			}
			for _, st := range steps {
				c16FullObs = false
				p, _ := c16Build(nd.path)
				c16FullObs = lvl == 0
				msg, pan := c16Apply(p, st)
				c16FullObs = true
				e.Trans(1)
				full := append(append([]c16Step{}, nd.path...), st)
				if msg != "" {
					e.Fail(st.Op, "c16", c16Case{full}, pathString(full)+": "+msg)
					e.Outcome(st.Op+"/mismatch", false)
					continue
				}
				if pan {
					e.Outcome(st.Op+"/both-panic", false)
					continue
				}
				nk := c16Key(p.z)
				e.Outcome(st.Op+"->"+reprClass(p.z), false)
				if !seen[nk] {
					seen[nk] = true
					e.State()
					if lvl > 0 {
						if msg := c16Observe(p.z, p.m); msg != "" {
							e.Fail(st.Op, "c16", c16Case{full}, pathString(full)+": receiver (full observers): "+msg)
						}
					}
					if lvl+1 > maxDepth {
						maxDepth = lvl + 1
					}
					next = append(next, node{full})
					if e.WantSample() {
						e.Sample(pathString(full) + " => " + nk)
					}
				}
			}
		}
		frontier = next
	}
	if e.R.Extra == nil {
		e.R.Extra = map[string]interface{}{}
	}
	e.R.Extra["max_depth"] = maxDepth
	e.R.Extra["frontier_left"] = len(frontier)
	_ = sort.Strings
	// argument tables of the integer-argument constructors (not reachable as BFS steps with more than a
	// few argument pairs): Binomial(n, k) for every 0 <= n <= 140, -1 <= k <= n+1 (results cross 2^64 at
	// n = 67 and 2^128 at n = 131) and MulRange(a, b) for every -6 <= a, b <= 40, on an inline and on a
	// heap-backed receiver, as one-step paths (replayable like any other path)
	tn := int64(0)
	table := func(st c16Step) {
		tn++
		if !e.Mine(tn) {
			return
		}
		for _, pre := range [][]c16Step{nil, {{Op: "SetMathBigInt", N: 1}, {Op: "Lsh", Args: []c16Arg{{Idx: -1}}, N: 200}}} {
			full := append(append([]c16Step{}, pre...), st)
			e.Trans(1)
			e.Outcome("table/"+st.Op, false)
			if _, msg := c16Build(full); msg != "" {
				e.Fail(st.Op, "c16", c16Case{full}, pathString(full)+": "+msg)
			}
		}
	}
	for n := int64(0); n <= 140; n++ {
		for k := int64(-1); k <= n+1; k++ {
			table(c16Step{Op: "Binomial", N: n, M: k})
		}
	}
	for a := int64(-6); a <= 40; a++ {
		for b := int64(-6); b <= 40; b++ {
			table(c16Step{Op: "MulRange", N: a, M: b})
		}
	}
	// Sqrt next to perfect squares k^2 - d, k^2, k^2 + d for roots k around 2^26.5 ... 2^64 (squares beyond the 53 bits
	// a float64 holds, up to and beyond the inline representation)
	for _, ks := range []string{"94906265", "94906266", "134217727", "134217728", "2147483647", "2147483648", "2500000000", "3037000499", "3037000500", "4294967295", "4294967296", "18446744073709551615", "18446744073709551616"} {
		k, _ := new(big.Int).SetString(ks, 10)
		sq := new(big.Int).Mul(k, k)
		for d := int64(-3); d <= 3; d++ {
			table(c16Step{Op: "SqrtS", S: new(big.Int).Add(sq, big.NewInt(d)).String()})
		}
	}
	for _, n := range []uint{53, 54, 55, 62, 63, 64, 126, 127, 128} {
		for d := int64(-2); d <= 2; d++ {
			table(c16Step{Op: "SqrtS", S: new(big.Int).Add(pow2(n), big.NewInt(d)).String()})
		}
	}
	// ModSqrt(x, p) for x in [-25, 60] and primes of every residue class math/big distinguishes (3 mod 4, 5 mod 8,
	// 1 mod 8), from one digit to 2^127-1
	for _, pr := range []string{"3", "5", "7", "11", "13", "17", "19", "23", "41", "1000003", "2305843009213693951", "618970019642690137449562111", "170141183460469231731687303715884105727"} {
		for x := int64(-25); x <= 60; x++ {
			table(c16Step{Op: "ModSqrtP", N: x, S: pr})
		}
	}
}

func c16Replay(kind string, raw json.RawMessage) string {
	if err := c16LayoutOK(); err != nil {
		return err.Error()
	}
	var c c16Case
	if err := json.Unmarshal(raw, &c); err != nil {
		return "bad replay file"
	}
	_, msg := c16Build(c.Path)
	if msg != "" {
		return pathString(c.Path) + ": " + msg
	}
	return ""
}

func init() {
	core.Register(&core.Prop{
		ID:    "C16",
		Title: "BigInt behaves exactly like math/big.Int",
		Rule:  "explicit-state BFS: a state is a receiver (value, representation class inline+/inline-/heap-small/heap, slack) reached by a method sequence; every transition applies one BigInt method with every argument tuple and alias pattern of the alphabet to the receiver and the same call to a mirrored *big.Int graph; after every transition all read-only observers are compared, arguments must be unchanged and representation invariants hold; states are deduplicated by canonical key (per worker shard); plus the complete argument tables Binomial(n,k), 0<=n<=140, -1<=k<=n+1 MulRange(a,b), -6<=a,b<=40, Sqrt next to 13 perfect squares beyond 2^53 and next to 2^53..2^128, and ModSqrt(x,p), -25<=x<=60, 13 primes up to 2^127-1, on an inline and a heap-backed receiver",
		Bounds: func(tier string) string {
			if tier == "thorough" {
				return fmt.Sprintf("alphabet of %d boundary values (0, +-1..10, 2^31..2^32+1, 2^63-1..2^64+1, 2^127..2^128+1, 10^19, 10^38, 10^39, 2^200(+1)), inline and heap-backed; depth 3: level 0 from every alphabet state with the 14-value argument set (x2 representations, + receiver aliasing), levels 1 and 2 from every new state with the 5-value set (the run is capped by the soft deadline and reports how far it got); 17 binary + 5 unary methods, shifts {0,1,63,64,65,127,128,129,200}, setters, encoders", len(c16Alphabet))
			}
			return fmt.Sprintf("alphabet of %d boundary values, inline and heap-backed; depth 2: level 0 from every alphabet state with a 14-value argument set (x2 representations, + receiver aliasing), level 1 from every new state with a 5-value set; 17 binary + 5 unary methods, shifts, setters, encoders", len(c16Alphabet))
		},
		Run:    c16Run,
		Replay: c16Replay,
		Assumptions: []string{
			"math/big is the reference; alias patterns are restricted to those math/big supports (receiver = any input, second output = x)",
			"after a nil return (ModInverse/Exp/SetString failure) math/big leaves the receiver unspecified; the mirror is resynchronised",
		},
	})
}
