package props

import (
	"encoding/json"
	"fmt"
	"math/big"

	"github.com/cockroachdb/apd/v3"

	"verif/internal/core"
	"verif/internal/ref"
)

// C15: Cmp is the exact numeric order; CmpTotal is the documented total order.

type c15Case struct {
	Kind string `json:"kind"` // "cmp", "total2", "total3"
	A    DecJ   `json:"a"`
	B    DecJ   `json:"b"`
	C    *DecJ  `json:"c,omitempty"`
}

func safeCmp(f func() int) (r int, pan string) {
	defer func() {
		if x := recover(); x != nil {
			pan = fmt.Sprint(x)
		}
	}()
	return f(), ""
}

// refTotal is the documented total order, written from the doc comment:
// -NaN < -sNaN < -Inf < finite < +Inf < +sNaN < +NaN; numerically different numbers by value;
// equal values by exponent (reversed for negatives); NaNs of the same class by payload.
func refTotal(a, b ref.Val) int {
	rank := func(v ref.Val) int {
		r := 0
		switch v.Form {
		case ref.Finite:
			r = 1
		case ref.Inf:
			r = 2
		case ref.SNaN:
			r = 3
		case ref.NaN:
			r = 4
		}
		if v.Neg {
			return -r
		}
		return r
	}
	ra, rb := rank(a), rank(b)
	if ra != rb {
		if ra < rb {
			return -1
		}
		return 1
	}
	switch a.Form {
	case ref.Inf:
		return 0
	case ref.Finite:
		if c := ref.Cmp(a, b); c != 0 {
			return c
		}
		c := 0
		if a.Exp < b.Exp {
			c = -1
		} else if a.Exp > b.Exp {
			c = 1
		}
		if a.Neg {
			c = -c
		}
		return c
	default:
		// payload order; the documentation does not say whether it is reversed for negative NaNs,
		// so only the axioms (antisymmetry, transitivity, zero iff identical) are demanded there
		return 2 // "unspecified"
	}
}

var c15Count int64

func c15Cmp(a, b Operand) string {
	want := ref.Cmp(a.V, b.V)
	got, pan := safeCmp(func() int { return a.D.Cmp(b.D) })
	if pan != "" {
		return "Decimal.Cmp panics: " + pan
	}
	if got != want {
		return fmt.Sprintf("Decimal.Cmp = %d, want %d", got, want)
	}
	var d apd.Decimal
	c := apd.Context{Precision: 5, MaxExponent: 100, MinExponent: -100}
	res, err, pan := callOp("Cmp", &c, &d, a.D, b.D, 0)
	if pan != "" {
		return "Context.Cmp panics: " + pan
	}
	if err != nil || res != 0 {
		return fmt.Sprintf("Context.Cmp: flags %s err %v", ref.FlagNames(int(res)), err)
	}
	gv := ToVal(&d)
	wv := ref.Val{Coef: big.NewInt(int64(abs(want))), Neg: want < 0}
	if gv.Form != ref.Finite || gv.Exp != 0 || gv.Coef.Cmp(wv.Coef) != 0 || (want != 0 && gv.Neg != wv.Neg) {
		return fmt.Sprintf("Context.Cmp = %s, want %d", gv, want)
	}
	// the result of Context.Cmp is -1, 0 or 1 with exponent 0 and no condition whatever the context's exponent
	// range (a range that does not contain exponent 0 must not clamp, overflow or underflow it); every 8th pair
	c15Count++
	if c15Count%8 == 0 {
		for _, cr := range []apd.Context{{Precision: 5, MinExponent: 1000, MaxExponent: 1002}, {Precision: 3, MinExponent: -9, MaxExponent: -3}} {
			var dd apd.Decimal
			cr := cr
			res, err, pan := callOp("Cmp", &cr, &dd, a.D, b.D, 0)
			gv := ToVal(&dd)
			if pan != "" || err != nil || res != 0 || gv.Form != ref.Finite || gv.Exp != 0 || gv.Coef.Cmp(wv.Coef) != 0 || (want != 0 && gv.Neg != wv.Neg) {
				return fmt.Sprintf("Context.Cmp under the range [%d,%d] = %s [%s] err %v panic %q, want %d with no condition", cr.MinExponent, cr.MaxExponent, gv, ref.FlagNames(int(res)), err, pan, want)
			}
		}
	}
	// where the coefficients have to be aligned (equal digit-count + exponent sums, different exponents) the
	// destination is also made one of the operands: the aligned copy must not be built in the operand itself
	if a.V.Form == ref.Finite && b.V.Form == ref.Finite && a.V.Exp != b.V.Exp && a.V.Coef.Sign() != 0 && b.V.Coef.Sign() != 0 && a.V.Adj() == b.V.Adj() {
		for _, pat := range []string{"d==x", "d==y"} {
			x, y := a.J.Build(), b.J.Build()
			dd := x
			if pat == "d==y" {
				dd = y
			}
			res, err, pan := callOp("Cmp", &c, dd, x, y, 0)
			if pan != "" {
				return "Context.Cmp (" + pat + ") panics: " + pan
			}
			gv := ToVal(dd)
			if err != nil || res != 0 || gv.Form != ref.Finite || gv.Exp != 0 || gv.Coef.Cmp(wv.Coef) != 0 || (want != 0 && gv.Neg != wv.Neg) {
				return fmt.Sprintf("Context.Cmp with %s = %s [%s] err %v, want %d", pat, gv, ref.FlagNames(int(res)), err, want)
			}
		}
	}
	return ""
}

func sameRepr(a, b ref.Val) bool {
	if a.Form != b.Form || a.Neg != b.Neg {
		return false
	}
	switch a.Form {
	case ref.Inf:
		return true
	case ref.Finite:
		return a.Exp == b.Exp && a.Coef.Cmp(b.Coef) == 0
	default:
		return a.Coef.Cmp(b.Coef) == 0
	}
}

func c15Total2(a, b Operand) string {
	ab, pan := safeCmp(func() int { return a.D.CmpTotal(b.D) })
	if pan != "" {
		return "CmpTotal panics: " + pan
	}
	ba, pan := safeCmp(func() int { return b.D.CmpTotal(a.D) })
	if pan != "" {
		return "CmpTotal panics: " + pan
	}
	if ab < -1 || ab > 1 {
		return fmt.Sprintf("CmpTotal = %d", ab)
	}
	if ab != -ba {
		return fmt.Sprintf("not antisymmetric: a?b = %d, b?a = %d", ab, ba)
	}
	if (ab == 0) != sameRepr(a.V, b.V) {
		return fmt.Sprintf("CmpTotal = %d but identical representation = %v", ab, sameRepr(a.V, b.V))
	}
	if want := refTotal(a.V, b.V); want != 2 && want != ab {
		return fmt.Sprintf("CmpTotal = %d, documented order gives %d", ab, want)
	}
	return ""
}

func c15Total3(a, b, c Operand) string {
	ab := a.D.CmpTotal(b.D)
	bc := b.D.CmpTotal(c.D)
	ac := a.D.CmpTotal(c.D)
	if ab <= 0 && bc <= 0 {
		if ac > 0 {
			return fmt.Sprintf("not transitive: a<=b (%d), b<=c (%d) but a?c = %d", ab, bc, ac)
		}
		if (ab < 0 || bc < 0) && ac == 0 {
			return fmt.Sprintf("not transitive: a<=b (%d), b<=c (%d), one strict, but a?c = 0", ab, bc)
		}
	}
	return ""
}

func c15Values(tier string) (V []Operand, W []Operand) {
	if tier == "thorough" {
		V = append(Dense(3, 4), Edge(EdgeExps)...)
	} else {
		V = append(Dense(2, 4), Edge([]int32{-129, -40, -1, 0, 1, 40, 129})...)
	}
	// zeros
	for _, ex := range []int32{-2001, -8, -1, 0, 1, 6, 99999, -99999} {
		V = append(V, Fin(0, ex, false), Fin(0, ex, true))
	}
	// infinities
	V = append(V, DecJ{Form: ref.Inf}.Op(), DecJ{Form: ref.Inf, Neg: true}.Op(), DecJ{Form: ref.Inf, Coef: "99998", Exp: 11}.Op())
	// coinciding digit-count + exponent sums: all (c, e) with digits(c)+e = const
	for _, k := range []int{-3, -1, 0, 1, 3} {
		for nd := 1; nd <= 6; nd++ {
			ex := int32(k - nd)
			lo := ref.Pow10(nd - 1)
			hi := new(big.Int).Sub(ref.Pow10(nd), big.NewInt(1))
			mid := new(big.Int).Mul(big.NewInt(5), ref.Pow10(nd-1))
			for _, c := range []*big.Int{lo, new(big.Int).Add(lo, big.NewInt(1)), mid, new(big.Int).Sub(hi, big.NewInt(1)), hi} {
				if c.Sign() > 0 && ref.NDig(c) == nd {
					V = append(V, FinBig(c, ex, false), FinBig(c, ex, true))
				}
			}
		}
	}
	// long coefficients against short ones with the same digit-count + exponent sum (the case where Cmp must
	// align the coefficients): every EDGE coefficient C against its own leading 1-3 digits +-1, scaled to C's length
	for _, C := range EdgeCoefs() {
		ds := C.String()
		if len(ds) < 8 {
			continue
		}
		for _, base := range []int32{0, -7} {
			V = append(V, FinBig(C, base, false), FinBig(C, base, true))
			for k := 1; k <= 3; k++ {
				lead, _ := new(big.Int).SetString(ds[:k], 10)
				for _, dl := range []int64{-1, 0, 1} {
					c := new(big.Int).Add(lead, big.NewInt(dl))
					if c.Sign() <= 0 {
						continue
					}
					ex := base + int32(len(ds)-ref.NDig(c))
					V = append(V, FinBig(c, ex, false), FinBig(c, ex, true))
				}
			}
		}
	}
	// exponent gaps beyond the 128-entry power-of-ten table with equal digit-count + exponent sums:
	// 1E+L against 10^L, 10^L +- 1, and a long all-nines value
	for _, L := range []int{129, 130, 150, 200} {
		pl := ref.Pow10(L)
		for _, neg := range []bool{false, true} {
			V = append(V, Fin(1, int32(L), neg), FinBig(pl, 0, neg), FinBig(new(big.Int).Add(pl, big.NewInt(1)), 0, neg), FinBig(new(big.Int).Sub(pl, big.NewInt(1)), 1, neg),
				FinBig(new(big.Int).Sub(ref.Pow10(L+1), big.NewInt(1)), 0, neg), Fin(10, int32(L-1), neg), Fin(2, int32(L), neg))
		}
	}
	// small coefficients that are heap-backed (what an in-place operation on a once-large coefficient leaves behind):
	// the storage class must not be taken for a magnitude
	for _, j := range []DecJ{{Coef: "1", Exp: 1}, {Coef: "10"}, {Coef: "5", Exp: 2}, {Coef: "999", Exp: -1}, {Coef: "100", Exp: -1}, {Coef: "11"}, {Coef: "0", Exp: 3}} {
		for _, neg := range []bool{false, true} {
			j.Heap, j.Neg = true, neg
			V = append(V, j.Op())
		}
	}
	// LIMIT: gaps up to the package limit
	V = append(V, limitOperands()...)
	// W: the triple alphabet
	W = append(W, DenseSel(2, 2, func(c int64) bool { return c < 3 || c == 10 || c == 20 || c == 99 || c == 100 })...)
	for _, f := range []int{ref.NaN, ref.SNaN} {
		for _, neg := range []bool{false, true} {
			for _, pl := range []string{"0", "7", "12345678901234567890123"} {
				W = append(W, DecJ{Form: f, Neg: neg, Coef: pl}.Op())
			}
		}
	}
	W = append(W, DecJ{Form: ref.Inf}.Op(), DecJ{Form: ref.Inf, Neg: true}.Op(), DecJ{Form: ref.Inf, Coef: "5", Exp: 3}.Op(),
		Fin(0, -3, false), Fin(0, -3, true), Fin(0, 2, true), Fin(1, 100000, false), Fin(1, -100000, true),
		FinBig(pow2(64), 0, false), FinBig(pow2(128), -10, true), DecJ{Coef: "10", Exp: 0, Heap: true}.Op())
	if tier == "thorough" {
		W = append(W, DenseSel(3, 3, func(c int64) bool { return c%100 == 0 || c%111 == 0 })...)
	}
	return
}

func c15Run(e *core.Env) {
	V, W := c15Values(e.Tier)
	fail := func(kind string, a, b Operand, c *Operand, msg string) {
		cs := c15Case{Kind: kind, A: a.J, B: b.J}
		s := fmt.Sprintf("%s a=%s b=%s", kind, a.V, b.V)
		if c != nil {
			cs.C = &c.J
			s += " c=" + c.V.String()
		}
		e.Fail(kind, kind, cs, s+": "+msg)
	}
	for i := range V {
		if !e.Mine(int64(i)) {
			continue
		}
		if e.Expired() {
			e.Cap("soft deadline in pair sweep")
			break
		}
		a := V[i]
		for j := range V {
			b := V[j]
			e.State()
			e.Trans(2)
			if msg := c15Cmp(a, b); msg != "" {
				fail("cmp", a, b, nil, msg)
			}
			cls := "cmp/different"
			if ref.Cmp(a.V, b.V) == 0 {
				cls = "cmp/equal-value"
			} else if a.V.Form == ref.Finite && b.V.Form == ref.Finite && a.V.Coef.Sign() != 0 && b.V.Coef.Sign() != 0 && a.V.Adj() == b.V.Adj() {
				cls = "cmp/same-adjusted-exponent"
			}
			e.Outcome(cls, false)
			e.Trans(2)
			if msg := c15Total2(a, b); msg != "" {
				fail("total2", a, b, nil, msg)
			}
			if e.WantSample() {
				e.Sample(fmt.Sprintf("Cmp/CmpTotal(%s, %s) => %s", a.V, b.V, cls))
			}
		}
	}
	// HUGE: exponents more than 100000 apart with equal digit-count + exponent sums (the lower-exponent operand
	// carries a coefficient of more than 100000 digits): only the aligned coefficients decide
	n := int64(0)
	for _, ee := range [][2]int32{{-50000, 60000}, {-100000, 1}, {-99999, 100000}} {
		gap := int(ee[1]) - int(ee[0])
		pg := ref.Pow10(gap)
		var H []Operand
		for _, neg := range []bool{false, true} {
			H = append(H, Fin(2, ee[1], neg), Fin(3, ee[1], neg), Fin(30, ee[1]-1, neg))
			for _, c := range []int64{2, 3} {
				base := new(big.Int).Mul(big.NewInt(c), pg)
				for _, dl := range []int64{-1, 0, 1} {
					H = append(H, FinBig(new(big.Int).Add(base, big.NewInt(dl)), ee[0], neg))
				}
			}
		}
		for i := range H {
			for j := range H {
				n++
				if !e.Mine(n) {
					continue
				}
				e.State()
				e.Trans(4)
				if msg := c15Cmp(H[i], H[j]); msg != "" {
					fail("cmp", H[i], H[j], nil, msg)
				}
				if msg := c15Total2(H[i], H[j]); msg != "" {
					fail("total2", H[i], H[j], nil, msg)
				}
				e.Outcome("cmp/gap>100000", false)
			}
		}
	}
	for i := range W {
		if !e.Mine(int64(i)) {
			continue
		}
		for j := range W {
			if msg := c15Total2(W[i], W[j]); msg != "" {
				fail("total2", W[i], W[j], nil, msg)
			}
			e.Trans(2)
			for k := range W {
				e.Trans(3)
				if msg := c15Total3(W[i], W[j], W[k]); msg != "" {
					fail("total3", W[i], W[j], &W[k], msg)
				}
			}
			e.Outcome("total/triples", false)
		}
	}
}

func c15Replay(kind string, raw json.RawMessage) string {
	var c c15Case
	if err := json.Unmarshal(raw, &c); err != nil {
		return "bad replay file"
	}
	switch c.Kind {
	case "cmp":
		return c15Cmp(c.A.Op(), c.B.Op())
	case "total2":
		return c15Total2(c.A.Op(), c.B.Op())
	case "total3":
		return c15Total3(c.A.Op(), c.B.Op(), c.C.Op())
	}
	return "unknown kind"
}

func init() {
	core.Register(&core.Prop{
		ID:    "C15",
		Title: "Cmp is the exact numeric order and CmpTotal is the documented total order",
		Rule:  "all ordered pairs of the value alphabet V through Decimal.Cmp/Context.Cmp (also with the destination aliased to either operand where the coefficients must be aligned) against exact comparison, and through CmpTotal against antisymmetry, zero-iff-identical and the documented order; all ordered triples of W for transitivity; every pair/triple is distinct and counted",
		Bounds: func(tier string) string {
			V, W := c15Values(tier)
			return fmt.Sprintf("|V| = %d (DENSE + EDGE + zeros + clean/dirty infinities + coinciding digit-count+exponent family + LIMIT) => %d ordered pairs; HUGE: 3 exponent pairs more than 100000 apart x 18 operands with tying digit-count + exponent sums (coefficients of 100001+ digits), all ordered pairs; |W| = %d (finite + all NaN/sNaN signs x payloads + infinities + limits) => %d ordered triples", len(V), len(V)*len(V), len(W), len(W)*len(W)*len(W))
		},
		Run:         c15Run,
		Replay:      c15Replay,
		Assumptions: []string{"the order of NaN payloads within one NaN class and sign is not documented; only the order axioms are demanded there"},
	})
}
