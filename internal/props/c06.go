package props

import (
	"encoding/json"
	"fmt"
	"math/big"
	"strings"

	"github.com/cockroachdb/apd/v3"

	"verif/internal/core"
	"verif/internal/ref"
)

// C06: results depend only on operands and context; inputs are never modified.

type purityCase struct {
	Op  string `json:"op"`
	X   *DecJ  `json:"x,omitempty"`
	Y   *DecJ  `json:"y,omitempty"`
	Ctx CtxJ   `json:"ctx"`
	Dst DecJ   `json:"dst"`
	// Raw: operands presented in the raw representation left by a previous operation (closure depth 2)
	Hist string `json:"history,omitempty"`
}

// c06Dsts are the destination pre-states, including the malformed garbage the repository's own
// harness pre-fills destinations with.
func c06Dsts() []DecJ {
	return []DecJ{
		{},
		{Coef: "7"},
		{Coef: "0", Exp: -3, Neg: true},
		{Form: ref.NaN},
		{Form: ref.SNaN, Coef: "123", Neg: true},
		{Form: ref.Inf},
		{Form: ref.Inf, Neg: true, Coef: "99998", Exp: 11},
		{Coef: "12345678901234567890123456789012345678901234567890", Exp: 5},
		{Coef: "1", Heap: true},
		{Coef: "1", Exp: 100000},
		{Form: -2, Neg: true, Coef: "9876543210", Exp: -6437897},
	}
}

func ctxSnap(c *apd.Context) string { return fmt.Sprintf("%+v", *c) }

// globalsDumpFn is set by the instrumented build (c18.go): deep dump of every package-level variable.
var globalsDumpFn func() string

// c06One: the outcome must be identical for every destination pre-state, operands and context unchanged.
func c06One(o dop, xj, yj *DecJ, cc CtxCase, dsts []DecJ) (msg string, bad int) {
	var base runOut
	for di, dj := range dsts {
		var x, y *apd.Decimal
		xs, ys := "", ""
		if xj != nil {
			x = xj.Build()
			xs = deepSnap(x)
		}
		if yj != nil {
			y = yj.Build()
			ys = deepSnap(y)
		}
		d := dj.Build()
		c := cc.C
		cs := ctxSnap(&c)
		got := func() (out runOut) {
			defer func() {
				if r := recover(); r != nil {
					out.pan = fmt.Sprint(r)
				}
			}()
			extra, res, err := o.f(&c, d, x, y)
			out.extra, out.res = extra, res
			if err != nil {
				out.err = err.Error()
			}
			out.obs = obsStr(d)
			if (err != nil && (res == 0 || res&(apd.SystemOverflow|apd.SystemUnderflow) != 0)) || extra == "skipped" {
				out.obs = "(no result delivered)"
			}
			return
		}()
		if di == 0 {
			base = got
		} else if got != base {
			return fmt.Sprintf("destination pre-state #%d %s gives %s, zero-value destination gives %s", di, dj.Val(), got, base), di
		}
		if x != nil && deepSnap(x) != xs {
			return fmt.Sprintf("operand x was modified: %s -> %s", xs, deepSnap(x)), di
		}
		if y != nil && deepSnap(y) != ys {
			return fmt.Sprintf("operand y was modified: %s -> %s", ys, deepSnap(y)), di
		}
		if ctxSnap(&c) != cs {
			return fmt.Sprintf("the Context was modified: %s -> %s", cs, ctxSnap(&c)), di
		}
	}
	return "", 0
}

func c06Run(e *core.Env) {
	if err := c16LayoutOK(); err != nil {
		panic(err)
	}
	xs := c05Operands(e.Tier)
	ctxs := c05Ctxs(e.Tier)
	dsts := c06Dsts()
	var ys []DecJ
	for i, j := range xs {
		if (e.Thorough() && i%3 == 0) || i%40 == 0 || j.Form != ref.Finite || j.Coef == "0" {
			ys = append(ys, j)
		}
	}
	fail := func(o dop, xj, yj *DecJ, cc CtxCase, di int, hist, msg string) {
		pc := purityCase{Op: o.name, X: xj, Y: yj, Ctx: cc.J(), Dst: dsts[di], Hist: hist}
		s := o.name + "("
		if xj != nil {
			s += "x=" + xj.Val().String()
		}
		if yj != nil {
			s += ", y=" + yj.Val().String()
		}
		e.Fail(o.name, "purity", pc, fmt.Sprintf("%s) ctx=%+v %s: %s", s, cc.J(), hist, msg))
	}
	check := func(o dop, xj, yj *DecJ, cc CtxCase, hist string) {
		e.TransOnly(int64(len(dsts)))
		e.Outcome(o.name+"/dst-independence", false)
		if msg, di := c06One(o, xj, yj, cc, dsts); msg != "" {
			fail(o, xj, yj, cc, di, hist, msg)
		}
	}
	skipP0 := func(o dop, cc CtxCase) bool {
		return cc.C.Precision == 0 && !p0Op[o.name] && !strings.Contains(o.name, ".") && !strings.HasPrefix(o.name, "Modf")
	}
	// constructors and BigInt-taking entry points: the *BigInt argument is an input and must stay bit-for-bit unchanged
	for bi := range c16Alphabet {
		if !e.Mine(int64(bi)) {
			continue
		}
		for _, heap := range []bool{false, true} {
			if heap && c16Alphabet[bi].BitLen() > 128 {
				continue
			}
			arg, _ := mkBig(c16Arg{Idx: bi, Heap: heap})
			before := snapBig(arg)
			d := apd.NewWithBigInt(arg, -3)
			e.TransOnly(1)
			e.Outcome("NewWithBigInt/argument-unchanged", false)
			if after := snapBig(arg); after != before {
				e.Fail("NewWithBigInt", "ctor", purityCase{Op: "NewWithBigInt", Hist: c16Alphabet[bi].String()}, fmt.Sprintf("NewWithBigInt(%s, -3) modified its coefficient argument: %s -> %s", shortBig(c16Alphabet[bi]), before, after))
			}
			want := new(big.Int).Abs(c16Alphabet[bi])
			if d.Coeff.MathBigInt().Cmp(want) != 0 || d.Negative != (c16Alphabet[bi].Sign() < 0) || d.Exponent != -3 || d.Form != apd.Finite {
				e.Fail("NewWithBigInt", "ctor", purityCase{Op: "NewWithBigInt", Hist: c16Alphabet[bi].String()}, fmt.Sprintf("NewWithBigInt(%s, -3) = %s", shortBig(c16Alphabet[bi]), rawStr(d)))
			}
			// NumDigits and the Decimal's own coefficient accessors must not write either
			n := apd.NumDigits(arg)
			_ = n
			if after := snapBig(arg); after != before {
				e.Fail("NumDigits", "ctor", purityCase{Op: "NumDigits", Hist: c16Alphabet[bi].String()}, fmt.Sprintf("NumDigits(%s) modified its argument", shortBig(c16Alphabet[bi])))
			}
		}
	}
	// byte-slice inputs of the text entry points are inputs too: UnmarshalText, Scan([]byte), NullDecimal.Scan([]byte),
	// BigInt.UnmarshalText/UnmarshalJSON/SetBytes and Compose must leave the caller's slice as it was
	for ti, txt := range c06ByteTexts {
		if !e.Mine(int64(ti)) {
			continue
		}
		e.State()
		e.TransOnly(int64(len(c06ByteEntries)))
		e.Outcome("byte-slice-argument-unchanged", false)
		for _, en := range c06ByteEntries {
			if msg := c06ByteArg(en.name, txt); msg != "" {
				e.Fail(en.name, "bytes", purityCase{Op: en.name, Hist: txt}, fmt.Sprintf("%s(%q): %s", en.name, txt, msg))
			}
		}
	}
	// no shared storage between a BigInt and the math/big values it is set from or converted to: after
	// SetMathBigInt(arg) in-place arithmetic on the receiver must not reach arg, changing arg must not reach the
	// receiver, and the value returned by MathBigInt must be independent of the receiver
	for bi := range c16Alphabet {
		if !e.Mine(int64(bi)) {
			continue
		}
		v := c16Alphabet[bi]
		hist := v.String()
		failS := func(msg string) {
			e.Fail("BigInt-storage", "storage", purityCase{Op: "SetMathBigInt/MathBigInt", Hist: hist}, fmt.Sprintf("value %s: %s", shortBig(v), msg))
		}
		if msg := c06Storage(v); msg != "" {
			failS(msg)
		}
		e.TransOnly(6)
		e.Outcome("BigInt/no-shared-storage", false)
	}
	// setters (no Decimal operand)
	for si, o := range setterDops {
		if !e.Mine(int64(si)) {
			continue
		}
		for _, cc := range ctxs {
			check(o, nil, nil, cc, "")
		}
	}
	// level 1: every operation x operands x contexts x destination pre-states
	type produced struct {
		j    DecJ
		hist string
	}
	var level2 []produced
	seen := map[string]bool{}
	globals0 := ""
	if globalsDumpFn != nil {
		globals0 = globalsDumpFn()
		e.Note("package-level-snapshot-enabled")
	} else {
		panic("C06 must run in the instrumented build (package-level snapshot unavailable)")
	}
	checkGlobals := func(after string) bool {
		e.TransOnly(1)
		e.Outcome("globals/self-loop", false)
		if g := globalsDumpFn(); g != globals0 {
			e.Fail("globals", "globals", purityCase{Op: "package-level state", Hist: after}, "package-level variables changed "+after+": "+firstDiffStr(globals0, g))
			globals0 = g
			return false
		}
		return true
	}
	for ix := range xs {
		mine := e.Mine(int64(ix))
		if e.Expired() {
			e.Cap("soft deadline")
			break
		}
		xj := xs[ix]
		if mine {
			e.State()
		}
		for ci, cc := range ctxs {
			for _, o := range allDops {
				if skipP0(o, cc) {
					continue
				}
				if (o.name == "Pow" || o.name == "Ln") && cc.C.Precision > 9 {
					continue
				}
				if o.nargs == 1 {
					if mine {
						check(o, &xj, nil, cc, "")
					}
					// closure: collect the raw representation of results (every worker identically, cheap)
					if ci%3 == 0 && len(level2) < 600 {
						var d apd.Decimal
						out := runDop(o, cc.C, &d, xj.Build(), nil)
						if out.pan == "" && out.obs != "(no result delivered)" {
							k := rawStr(&d)
							if !seen[k] && (d.Form != apd.Finite || d.Coeff.Sign() == 0 || len(level2) < 300) {
								seen[k] = true
								j := ToJ(&d)
								level2 = append(level2, produced{j, fmt.Sprintf("[operand produced by %s(%s) p=%d]", o.name, xj.Val(), cc.C.Precision)})
							}
						}
					}
					continue
				}
				if !mine {
					continue
				}
				for iy := range ys {
					yj := ys[iy]
					check(o, &xj, &yj, cc, "")
				}
			}
		}
		if mine && e.WantSample() {
			e.Sample(fmt.Sprintf("x=%s: %d operations x %d contexts x %d destination pre-states", xj.Val(), len(allDops), len(ctxs), len(dsts)))
		}
		if mine {
			// the global-state graph must consist of self-loops only: one state, checked after every operand batch
			checkGlobals(fmt.Sprintf("after all operations with first operand %s", xj.Val()))
		}
	}
	// every single operation from the single reachable global state (a sample of operands, every operation, one context each)
	for ix := 0; ix < len(xs); ix += 7 {
		if !e.Mine(int64(ix / 7)) {
			continue
		}
		xj := xs[ix]
		for oi, o := range allDops {
			cc := ctxs[(ix+oi)%len(ctxs)]
			if skipP0(o, cc) || ((o.name == "Pow" || o.name == "Ln") && cc.C.Precision > 9) {
				continue
			}
			var d apd.Decimal
			var y *apd.Decimal
			if o.nargs == 2 {
				y = ys[(ix+oi)%len(ys)].Build()
			}
			runDop(o, cc.C, &d, xj.Build(), y)
			checkGlobals(fmt.Sprintf("by %s(%s) p=%d", o.name, xj.Val(), cc.C.Precision))
		}
	}
	// binary producers of unusual representations: overflowing Mul leaves a dirty infinity, NaN propagation copies coefficients
	for _, pr := range []struct {
		op   string
		x, y DecJ
		c    CtxCase
	}{
		{"Mul", DecJ{Coef: "99999", Exp: 3}, DecJ{Coef: "99999", Exp: 3}, MkCtx(5, -9, 9, apd.RoundHalfEven, 0)},
		{"Add", DecJ{Form: ref.NaN, Coef: "777", Neg: true}, DecJ{Coef: "5"}, MkCtx(5, -9, 9, apd.RoundHalfEven, 0)},
		{"Quo", DecJ{Coef: "1"}, DecJ{Form: ref.Inf}, MkCtx(5, -9, 9, apd.RoundHalfEven, 0)},
		{"Sub", DecJ{Coef: "123456", Exp: -3}, DecJ{Coef: "123456", Exp: -3}, MkCtx(3, -9, 9, apd.RoundFloor, 0)},
		{"Quo", DecJ{Coef: "5"}, DecJ{Coef: "0"}, MkCtx(5, -9, 9, apd.RoundHalfEven, 0)},
	} {
		var d apd.Decimal
		o, _ := findDop(pr.op)
		runDop(o, pr.c.C, &d, pr.x.Build(), pr.y.Build())
		level2 = append(level2, produced{ToJ(&d), fmt.Sprintf("[operand produced by %s(%s,%s)]", pr.op, pr.x.Val(), pr.y.Val())})
	}
	// level 2: produced representations as operands, compared with the same operation on a freshly parsed
	// equal value (the state reached from elsewhere) and run against every destination pre-state.
	e.Note(fmt.Sprintf("closure-level-2-operands=%d", len(level2)))
	c2 := []CtxCase{ctxs[0], ctxs[2], ctxs[4]}
	for li, pr := range level2 {
		if !e.Mine(int64(li)) {
			continue
		}
		e.State()
		fresh := pr.j
		canon := fresh
		if fresh.Form == ref.Inf {
			canon.Coef, canon.Exp = "0", 0 // a freshly parsed infinity
		}
		for _, cc := range c2 {
			for _, o := range allDops {
				if skipP0(o, cc) {
					continue
				}
				var yjs []*DecJ
				if o.nargs == 2 {
					for _, s := range []DecJ{{Coef: "3"}, {Coef: "25", Exp: -1, Neg: true}, {Form: ref.Inf}, {Coef: "0", Exp: -2}} {
						s := s
						yjs = append(yjs, &s)
					}
				} else {
					yjs = []*DecJ{nil}
				}
				for _, yj := range yjs {
					check(o, &fresh, yj, cc, pr.hist)
					// differential: raw representation vs canonical representation of the same value
					if fresh.Form == ref.Inf && (fresh.Coef != "0" || fresh.Exp != 0) {
						var d1, d2 apd.Decimal
						var y1, y2 *apd.Decimal
						if yj != nil {
							y1, y2 = yj.Build(), yj.Build()
						}
						a := runDop(o, cc.C, &d1, fresh.Build(), y1)
						b := runDop(o, cc.C, &d2, canon.Build(), y2)
						e.TransOnly(2)
						e.Outcome(o.name+"/raw-vs-fresh", false)
						if a != b {
							fail(o, &fresh, yj, cc, 0, pr.hist, fmt.Sprintf("on the raw representation %s gives %s, on a freshly parsed equal value %s", rawJ(fresh), a, b))
						}
						if yj != nil {
							// and as second operand
							a := runDop(o, cc.C, &d1, yj.Build(), fresh.Build())
							b := runDop(o, cc.C, &d2, yj.Build(), canon.Build())
							e.TransOnly(2)
							if a != b {
								fail(o, yj, &fresh, cc, 0, pr.hist, fmt.Sprintf("second operand in raw representation %s gives %s, freshly parsed equal value %s", rawJ(fresh), a, b))
							}
						}
					}
				}
			}
		}
	}
}

func firstDiffStr(a, b string) string {
	n := len(a)
	if len(b) < n {
		n = len(b)
	}
	i := 0
	for i < n && a[i] == b[i] {
		i++
	}
	lo := i - 80
	if lo < 0 {
		lo = 0
	}
	hi := i + 80
	ca, cb := a, b
	if hi < len(ca) {
		ca = ca[:hi]
	}
	if hi < len(cb) {
		cb = cb[:hi]
	}
	return fmt.Sprintf("at offset %d: ...%s... became ...%s...", i, ca[lo:], cb[lo:])
}

var c06ByteTexts = []string{"1.5E+7", "-12E-3", "NaN", "sNaN123", "-Infinity", "INF", "Inf", "1E5", "+0.0E+0", "123", "0x1F", "-0B101", "1_000", "\"42\"", "null", "\x00\xffAZ", "Not a Number", "1E", ""}

var c06ByteEntries = []struct {
	name string
	f    func(b []byte)
}{
	{"Decimal.UnmarshalText", func(b []byte) { new(apd.Decimal).UnmarshalText(b) }},
	{"Decimal.Scan([]byte)", func(b []byte) { new(apd.Decimal).Scan(b) }},
	{"NullDecimal.Scan([]byte)", func(b []byte) { new(apd.NullDecimal).Scan(b) }},
	{"BigInt.UnmarshalText", func(b []byte) { new(apd.BigInt).UnmarshalText(b) }},
	{"BigInt.UnmarshalJSON", func(b []byte) { new(apd.BigInt).UnmarshalJSON(b) }},
	{"BigInt.SetBytes", func(b []byte) { new(apd.BigInt).SetBytes(b) }},
	{"Decimal.Compose", func(b []byte) { new(apd.Decimal).Compose(0, false, b, -2) }},
}

// c06ByteArg calls one entry point with a private copy of txt (with spare capacity behind it) and reports a change
// of the slice's bytes, of the spare capacity or a panic.
func c06ByteArg(name, txt string) (msg string) {
	defer func() {
		if r := recover(); r != nil {
			msg = fmt.Sprintf("panic: %v", r)
		}
	}()
	for _, en := range c06ByteEntries {
		if en.name != name {
			continue
		}
		buf := make([]byte, len(txt), len(txt)+8)
		copy(buf, txt)
		spare := buf[len(txt):cap(buf)]
		for i := range spare {
			spare[i] = 0xA5
		}
		en.f(buf)
		if string(buf) != txt {
			return fmt.Sprintf("the caller's slice now reads %q", string(buf))
		}
		for _, c := range buf[len(txt):cap(buf)] {
			if c != 0xA5 {
				return "the spare capacity behind the caller's slice was written"
			}
		}
		return ""
	}
	return "unknown entry point"
}

// c06Storage checks that SetMathBigInt / MathBigInt / NewWithBigInt / Set copy instead of sharing words.
func c06Storage(v *big.Int) (msg string) {
	defer func() {
		if r := recover(); r != nil {
			msg = fmt.Sprintf("panic: %v", r)
		}
	}()
	one := apd.NewBigInt(1)
	bump := func(z *apd.BigInt) {
		// in-place arithmetic that keeps the size: +1, -1, +1
		z.Add(z, one)
		z.Sub(z, one)
		z.Add(z, one)
	}
	// receiver written after SetMathBigInt
	arg := new(big.Int).Set(v)
	var z apd.BigInt
	z.SetMathBigInt(arg)
	bump(&z)
	if arg.Cmp(v) != 0 {
		return fmt.Sprintf("in-place arithmetic on a BigInt set by SetMathBigInt rewrote the caller's big.Int (now %s)", shortBig(arg))
	}
	// argument written after SetMathBigInt
	arg2 := new(big.Int).Set(v)
	var z2 apd.BigInt
	z2.SetMathBigInt(arg2)
	arg2.Add(arg2, big.NewInt(1))
	arg2.Neg(arg2)
	if z2.MathBigInt().Cmp(v) != 0 {
		return fmt.Sprintf("changing the big.Int passed to SetMathBigInt afterwards changed the BigInt (now %s)", z2.String())
	}
	// MathBigInt result independent of the receiver, both directions
	var z3 apd.BigInt
	z3.SetMathBigInt(v)
	out := z3.MathBigInt()
	out.Add(out, big.NewInt(5))
	if z3.MathBigInt().Cmp(v) != 0 {
		return "changing the value returned by MathBigInt changed the receiver"
	}
	out2 := z3.MathBigInt()
	bump(&z3)
	if out2.Cmp(v) != 0 {
		return "in-place arithmetic on the receiver changed a value returned earlier by MathBigInt"
	}
	// Set / NewWithBigInt / Decimal.Set copy as well
	var src, dst apd.BigInt
	src.SetMathBigInt(v)
	dst.Set(&src)
	bump(&dst)
	if src.MathBigInt().Cmp(v) != 0 {
		return "in-place arithmetic on the destination of BigInt.Set changed the source"
	}
	d := apd.NewWithBigInt(&src, 0)
	bump(&d.Coeff)
	if src.MathBigInt().Cmp(v) != 0 {
		return "in-place arithmetic on the coefficient of a Decimal made by NewWithBigInt changed the argument"
	}
	var d2 apd.Decimal
	d2.Set(d)
	bump(&d2.Coeff)
	want := new(big.Int).Add(new(big.Int).Abs(v), big.NewInt(1))
	if d.Coeff.MathBigInt().Cmp(want) != 0 {
		return "in-place arithmetic on the destination of Decimal.Set changed the source"
	}
	return ""
}

// snapBig is the deep snapshot of a BigInt (hidden representation included).
func snapBig(z *apd.BigInt) string {
	var d apd.Decimal
	d.Coeff = *z // struct copy: shares the heap pointer, which is what we want to look at
	return deepSnap(&d)
}

func rawJ(j DecJ) string {
	return fmt.Sprintf("{form=%d neg=%v coef=%s exp=%d}", j.Form, j.Neg, j.Coef, j.Exp)
}

func c06Replay(kind string, raw json.RawMessage) string {
	if err := c16LayoutOK(); err != nil {
		return err.Error()
	}
	var p purityCase
	if err := json.Unmarshal(raw, &p); err != nil {
		return "bad replay file"
	}
	if kind == "bytes" {
		return c06ByteArg(p.Op, p.Hist)
	}
	if kind == "ctor" {
		b, ok := new(big.Int).SetString(p.Hist, 10)
		if !ok {
			return "bad replay file"
		}
		arg := new(apd.BigInt).SetMathBigInt(b)
		before := snapBig(arg)
		apd.NewWithBigInt(arg, -3)
		apd.NumDigits(arg)
		if after := snapBig(arg); after != before {
			return fmt.Sprintf("the coefficient argument was modified: %s -> %s", before, after)
		}
		return ""
	}
	if kind == "storage" {
		b, ok := new(big.Int).SetString(p.Hist, 10)
		if !ok {
			return "bad replay file"
		}
		return c06Storage(b)
	}
	if kind == "globals" {
		return "re-run ./run.sh C06 (the package-level snapshot is compared across a batch of operations: " + p.Hist + ")"
	}
	o, ok := findDop(p.Op)
	if !ok {
		return "unknown operation " + p.Op
	}
	cc := p.Ctx.Ctx()
	if msg, _ := c06One(o, p.X, p.Y, cc, c06Dsts()); msg != "" {
		return msg
	}
	if p.X != nil && p.X.Form == ref.Inf {
		canon := *p.X
		canon.Coef, canon.Exp = "0", 0
		var d1, d2 apd.Decimal
		var y1, y2 *apd.Decimal
		if p.Y != nil {
			y1, y2 = p.Y.Build(), p.Y.Build()
		}
		a := runDop(o, cc.C, &d1, p.X.Build(), y1)
		b := runDop(o, cc.C, &d2, canon.Build(), y2)
		if a != b {
			return fmt.Sprintf("raw representation gives %s, freshly parsed equal value %s", a, b)
		}
	}
	return ""
}

func init() {
	core.Register(&core.Prop{
		ID:    "C06",
		Title: "Results depend only on operands and context; inputs are never modified",
		Rule:  "every destination-writing operation (22 Context operations, Decimal methods, Modf shapes, parsers/setters/Compose/Scan) x operands x contexts is executed once per destination pre-state (11 pre-states incl. NaN, infinities with leftover coefficient, huge coefficient, heap-backed 1, exponent 100000, malformed garbage); outcomes must be identical, non-destination operands and the Context bit-for-bit unchanged (deep snapshot incl. hidden BigInt representation); closure depth 2: raw results of depth-1 operations become operands and are compared with freshly parsed equal values; the package-global snapshot graph is explored by C06's shadow part when the instrumented build is available",
		Bounds: func(tier string) string {
			return fmt.Sprintf("%d operand representations x second operands x %d contexts x %d operations x %d destination pre-states; %d setter operations; closure level 2 up to 600 produced representations x 3 contexts", len(c05Operands(tier)), len(c05Ctxs(tier)), len(allDops), len(c06Dsts()), len(setterDops))
		},
		Run:    c06Run,
		Replay: c06Replay,
		Assumptions: []string{
			"differential oracle (no reference model); when an operation returns an error without a Condition no result was delivered and the destination is not compared",
			"observable result = form, sign, and for finite values exponent+coefficient, for NaNs the payload coefficient",
		},
	})
}
