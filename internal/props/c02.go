package props

import (
	"encoding/json"
	"fmt"
	"math/big"

	"github.com/cockroachdb/apd/v3"

	"verif/internal/core"
	"verif/internal/ref"
)

// C02: condition flags are a function of the exact result.

const c02Exact = ref.Inexact | ref.Subnormal | ref.Underflow | ref.Overflow | ref.DivisionByZero | ref.DivisionUndefined | ref.DivisionImpossible | ref.InvalidOperation

var c02Binary = []string{"Add", "Sub", "Mul", "Quo", "QuoInteger", "Rem"}
var c02Unary = []string{"Round", "Reduce", "RoundToIntegralExact", "Sqrt"}

// c02Expect returns (mask, want, class, ok): the condition bits asserted exactly for this case.
func c02Expect(op string, x, y ref.Val, qexp int, c ref.Ctx) (mask, want int, cls string, ok bool) {
	mask = c02Exact
	switch op {
	case "Add", "Sub", "Mul", "Round", "Reduce":
		opx := op
		if op == "Reduce" {
			opx = "Round"
		}
		ex, _, _ := arithExact(opx, x, y, c)
		r := ref.Round(ex, c)
		return mask, r.Flags, resultClass(op, ex, r, c), !r.Unspec
	case "Quo":
		if y.Coef.Sign() == 0 {
			if x.Coef.Sign() == 0 {
				return mask, ref.DivisionUndefined, "Quo/0by0", true
			}
			return mask, ref.DivisionByZero, "Quo/xby0", true
		}
		ex := ref.QuoExact(x, y, c)
		r := ref.Round(ex, c)
		return mask, r.Flags, resultClass(op, ex, r, c), true
	case "QuoInteger", "Rem":
		if y.Coef.Sign() == 0 {
			if x.Coef.Sign() == 0 {
				return mask, ref.DivisionUndefined, op + "/0by0", true
			}
			if op == "Rem" {
				return mask, ref.InvalidOperation, op + "/xby0", true
			}
			return mask, ref.DivisionByZero, op + "/xby0", true
		}
		if abs(x.Exp-y.Exp) > 2000 {
			return 0, 0, op + "/gap", false
		}
		q, r, e := ref.DivInt(x, y)
		if ref.NDig(q) > c.P {
			return mask, ref.DivisionImpossible, op + "/impossible", true
		}
		if op == "QuoInteger" {
			return mask, 0, op + "/ok", true
		}
		ex := ref.Exact{Neg: x.Neg, N: r, E: e}
		rr := ref.Round(ex, c)
		return mask, rr.Flags, resultClass(op, ex, rr, c), true
	case "Quantize":
		_, inexact, _, invalid := ref.QuantizeRef(x, qexp, c)
		mask &^= ref.Subnormal
		if invalid {
			return mask, ref.InvalidOperation, "Quantize/invalid", true
		}
		if inexact {
			return mask, ref.Inexact, "Quantize/inexact", true
		}
		return mask, 0, "Quantize/exact", true
	case "RoundToIntegralExact":
		c0 := c
		c0.P = 0
		c0.Emax = 1 << 30
		c0.Emin = -(1 << 30)
		mask &^= ref.Subnormal
		if x.Exp >= 0 {
			// C09's quantifier: only x whose rounded integer still fits the exponent range
			return mask, 0, op + "/exact", x.Coef.Sign() == 0 || x.Adj() <= c.Emax
		}
		v, inexact, _, _ := ref.QuantizeRef(x, 0, c0)
		if v.Coef.Sign() != 0 && v.Adj() > c.Emax {
			return mask, 0, op + "/beyond-emax", false
		}
		if inexact {
			return mask, ref.Inexact, op + "/inexact", true
		}
		return mask, 0, op + "/exact", true
	case "Sqrt":
		if x.Coef.Sign() == 0 {
			return mask, 0, "Sqrt/zero", true
		}
		if x.Neg {
			return mask, ref.InvalidOperation, "Sqrt/negative", true
		}
		c.Mode = "half_even"
		ex := ref.SqrtExact(x, c)
		r := ref.Round(ex, c)
		return mask, r.Flags, resultClass(op, ex, r, c), true
	}
	return 0, 0, op, false
}

func c02One(op string, x Operand, y *Operand, qexp int32, cc CtxCase) (cls string, trivial bool, msg string) {
	var yv ref.Val
	var yd *apd.Decimal
	if y != nil {
		yv, yd = y.V, y.D
	} else {
		yv = ref.Val{Coef: new(big.Int)}
	}
	mask, want, cls, ok := c02Expect(op, x.V, yv, int(qexp), cc.R)
	if !ok {
		return cls + "/unspecified", false, ""
	}
	trivial = want == 0
	var d apd.Decimal
	c := cc.C
	res, err, pan := callOp(op, &c, &d, x.D, yd, qexp)
	if pan != "" {
		return cls, trivial, "panic: " + pan
	}
	if err != nil {
		if isSysErr(res, err) && nearLimit(x.V, yv) {
			return cls + "/syslimit", false, ""
		}
		return cls, trivial, fmt.Sprintf("unexpected error %q with empty trap set (flags %s)", err, ref.FlagNames(int(res)))
	}
	got := int(res)
	if got>>12 != 0 {
		return cls, trivial, fmt.Sprintf("condition has bits outside the twelve documented ones: %#x", got)
	}
	if got&mask != want&mask {
		return cls, trivial, fmt.Sprintf("flags: got %s, want exactly %s among {%s}; result %s", ref.FlagNames(got), ref.FlagNames(want&mask), ref.FlagNames(mask), ToVal(&d))
	}
	if got&ref.Overflow != 0 && got&ref.Inexact == 0 {
		return cls, trivial, "Overflow without Inexact: " + ref.FlagNames(got)
	}
	if d.Form == apd.Finite && got&ref.Inexact != 0 && got&ref.Rounded == 0 {
		return cls, trivial, "Inexact without Rounded on a finite result: " + ref.FlagNames(got)
	}
	if got&(ref.SystemOverflow|ref.SystemUnderflow) != 0 {
		return cls, trivial, "system flag without error: " + ref.FlagNames(got)
	}
	return cls, trivial, ""
}

// sqrtFamily: DENSE(k) singles plus the sparse SHAPE coefficients (at most two
// non-zero digits, all-nines, one-plus-epsilon) where guard-digit failures live.
func sqrtFamily(tier string) []Operand {
	var out []Operand
	k := 3
	L := 10
	if tier == "thorough" {
		k = 4
		L = 14
	}
	lim := int64(1)
	for i := 0; i < k; i++ {
		lim *= 10
	}
	for c := int64(0); c < lim; c++ {
		for _, e := range []int32{-7, -4, -3, -2, -1, 0, 1, 2, 5, 6} {
			out = append(out, Fin(c, e, false))
		}
	}
	out = append(out, Fin(4, 0, true), Fin(0, -3, true), Fin(25, -2, true))
	for _, c := range shapeCoefs(L) {
		for _, e := range []int32{-int32(ref.NDig(c)) + 1, -int32(ref.NDig(c)), 0, 1} {
			out = append(out, FinBig(c, e, false))
		}
	}
	return out
}

// shapeCoefs is SHAPE(L): coefficients of length <= L with at most two non-zero
// digits (first digit and one other), all-nines, nines with one defect.
func shapeCoefs(L int) []*big.Int {
	var out []*big.Int
	for n := 2; n <= L; n++ {
		for _, a := range []int64{1, 2, 4, 9} {
			hi := new(big.Int).Mul(big.NewInt(a), ref.Pow10(n-1))
			for pos := 0; pos < n-1; pos++ {
				if n > 8 && pos > 2 && pos < n-3 {
					continue
				}
				for _, b := range []int64{1, 2, 5, 8} {
					v := new(big.Int).Mul(big.NewInt(b), ref.Pow10(pos))
					out = append(out, v.Add(v, hi))
				}
			}
		}
		nines := new(big.Int).Sub(ref.Pow10(n), big.NewInt(1))
		out = append(out, nines)
		for pos := 0; pos < n; pos++ {
			if n > 8 && pos > 1 && pos < n-2 {
				continue
			}
			out = append(out, new(big.Int).Sub(nines, ref.Pow10(pos)))
		}
	}
	return out
}

func c02Run(e *core.Env) {
	sp := buildArithSpace(e.Tier, e.Seed)
	do := func(op string, x Operand, y *Operand, qexp int32, cc CtxCase) {
		cls, triv, msg := c02One(op, x, y, qexp, cc)
		e.Trans(1)
		e.Outcome(cls, triv)
		if msg != "" || e.WantSample() {
			a := mkCase(op, x, y, cc)
			if op == "Quantize" {
				q := qexp
				a.Exp = &q
			}
			if msg != "" {
				e.Fail(cls, "arith", a, a.String()+": "+msg)
			} else {
				e.Sample(a.String() + " => " + cls)
			}
		}
	}
	// special operands: "DivisionByZero, DivisionUndefined, DivisionImpossible and InvalidOperation exactly in the
	// cases the specification assigns them" - NaN/sNaN (signs, payloads), clean and dirty infinities and signed
	// zeros through every operation of this property, against the special-value table of C08 (value and flags)
	{
		al := c08Alphabet()
		var spx []Operand
		for _, o := range al {
			if o.V.Form != ref.Finite || o.V.Coef.Sign() == 0 || (o.V.Coef.Cmp(big.NewInt(1)) == 0 && o.V.Exp == 0) || o.J.Coef == "7" {
				spx = append(spx, o)
			}
		}
		sctx := []CtxCase{MkCtx(3, -3, 9, apd.RoundHalfEven, 0), MkCtx(5, -6143, 6144, apd.RoundFloor, 0)}
		n := int64(0)
		for ix := range spx {
			n++
			if !e.Mine(n) {
				continue
			}
			e.State()
			for _, cc := range sctx {
				for _, op := range c02Unary {
					cls, _, msg := c08One(op, spx[ix], nil, 0, cc)
					e.Trans(1)
					e.Outcome("special/"+cls, false)
					if msg != "" {
						a := mkCase(op, spx[ix], nil, cc)
						e.Fail(op+"/special", "special", a, a.String()+": "+msg)
					}
				}
				for iy := range spx {
					y := spx[iy]
					for _, op := range c02Binary {
						cls, _, msg := c08One(op, spx[ix], &y, 0, cc)
						e.Trans(1)
						e.Outcome("special/"+cls, false)
						if msg != "" {
							a := mkCase(op, spx[ix], &y, cc)
							e.Fail(op+"/special", "special", a, a.String()+": "+msg)
						}
					}
				}
			}
		}
	}
	for ix := range sp.Xs {
		if !e.Mine(int64(ix)) {
			continue
		}
		if e.Expired() {
			e.Cap("soft deadline in binary sweep")
			break
		}
		x := sp.Xs[ix]
		for iy := range sp.Ys {
			y := sp.Ys[iy]
			e.State()
			for _, cc := range sp.Ctxs {
				for _, op := range c02Binary {
					do(op, x, &y, 0, cc)
				}
			}
		}
	}
	w := int32(4)
	if e.Thorough() {
		w = 7
	}
	for iu := range sp.Us {
		if !e.Mine(int64(iu)) {
			continue
		}
		u := sp.Us[iu]
		e.State()
		for _, cc := range sp.Ctxs {
			for _, op := range c02Unary {
				if op == "Sqrt" && u.V.Neg && u.V.Coef.Sign() != 0 && iu%5 != 0 {
					continue
				}
				do(op, u, nil, 0, cc)
			}
			for q := -w; q <= w; q++ {
				do("Quantize", u, nil, q, cc)
			}
		}
	}
	// high-precision block
	for iu := range sp.HiUs {
		if !e.Mine(int64(iu)) {
			continue
		}
		e.State()
		for _, cc := range sp.HiCtxs {
			for _, op := range []string{"Round", "Reduce", "RoundToIntegralExact"} {
				do(op, sp.HiUs[iu], nil, 0, cc)
			}
		}
	}
	for ip := range sp.HiPairs {
		if !e.Mine(int64(ip)) {
			continue
		}
		pr := sp.HiPairs[ip]
		e.State()
		for _, cc := range sp.HiCtxs {
			for _, op := range c02Binary {
				do(op, pr[0], &pr[1], 0, cc)
			}
		}
	}
	// WIDE-EDGE block (round 12): operands whose coefficients together exceed one machine word, with the exact
	// product's adjusted exponent placed one or two steps inside and outside MinExponent / MaxExponent and the
	// precision at, just below and well above the product's digit count: exact-but-subnormal, exact-at-Emax and
	// just-overflowing wide results through every binary operation of the property
	{
		wc := []*big.Int{bigOf("20000000000000"), bigOf("3000000000"), bigOf("99999999999"), bigOf("10000000000000000000"), pow2(64),
			bigOf("123456789012345678901"), bigOf("31622776601683793320"), bigOf("5000000000000")}
		n := int64(0)
		for ia, a := range wc {
			for ib, b := range wc {
				n++
				if !e.Mine(n) {
					continue
				}
				x := FinBig(a, -60, ia%2 == 1)
				y := FinBig(b, -63, ib%3 == 1)
				nd := int32(len(new(big.Int).Mul(a, b).String()))
				adj := -123 + nd - 1
				e.State()
				for _, p := range []uint32{uint32(nd) - 1, uint32(nd), uint32(nd) + 1, 60} {
					for _, m := range []apd.Rounder{apd.RoundHalfEven, apd.RoundDown, apd.RoundCeiling} {
						for dl := int32(-1); dl <= 2; dl++ {
							for _, cc := range []CtxCase{MkCtx(p, adj+dl, adj+dl+200, m, 0), MkCtx(p, adj-dl-200, adj-dl, m, 0)} {
								for _, op := range c02Binary {
									do(op, x, &y, 0, cc)
								}
							}
						}
					}
				}
			}
		}
	}
	// Sqrt on its own family, precisions 1..9 (and 16), wide and tight ranges
	sf := sqrtFamily(e.Tier)
	var sctx []CtxCase
	for _, p := range []uint32{1, 2, 3, 4, 5, 6, 7, 8, 9, 16} {
		sctx = append(sctx, MkCtx(p, -6143, 6144, apd.RoundHalfEven, 0), MkCtx(p, -1, int32(p)+2, apd.RoundDown, 0))
	}
	for i := range sf {
		if !e.Mine(int64(i)) {
			continue
		}
		e.State()
		for _, cc := range sctx {
			do("Sqrt", sf[i], nil, 0, cc)
		}
	}
}

func c02Replay(kind string, raw json.RawMessage) string {
	a, err := decodeArith(raw)
	if err != nil {
		return "bad replay file: " + err.Error()
	}
	x := a.X.Op()
	var y *Operand
	if a.Y != nil {
		o := a.Y.Op()
		y = &o
	}
	var q int32
	if a.Exp != nil {
		q = *a.Exp
	}
	if kind == "special" {
		_, _, msg := c08One(a.Op, x, y, q, a.Ctx.Ctx())
		if msg != "" {
			return a.String() + ": " + msg
		}
		return ""
	}
	_, _, msg := c02One(a.Op, x, y, q, a.Ctx.Ctx())
	if msg != "" {
		return a.String() + ": " + msg
	}
	return ""
}

func init() {
	core.Register(&core.Prop{
		ID:    "C02",
		Title: "Condition flags describe exactly what happened to the result",
		Rule:  "every (operation x operands x context) point is executed with an empty trap set and its Condition compared bit-for-bit (Inexact, Subnormal, Underflow, Overflow, DivisionByZero, DivisionUndefined, DivisionImpossible, InvalidOperation) with the flags the reference model derives from the exact result; Rounded/Clamped through implications only; non-trivial = reference expects at least one flag; special operands (NaN/sNaN with signs and payloads, clean and dirty infinities, signed zeros, 1, 7) through every operation of the property against the special-value table (value and exact flags)",
		Bounds: func(tier string) string {
			return buildArithSpace(tier, 0).Desc + "; ops Add,Sub,Mul,Quo,QuoInteger,Rem on X x Y; Round,Reduce,RoundToIntegralExact,Sqrt,Quantize(exp in [-4,4] quick / [-7,7] thorough) on U; Sqrt additionally on DENSE(3|4) x 10 exponents + SHAPE(10|14) at p in {1..9,16}; WIDE-EDGE block: 8x8 coefficient pairs of 10..21 digits x precision {n-1,n,n+1,60} (n = digits of the exact product) x 3 modes x MinExponent and MaxExponent placed -2..+2 steps around the product's adjusted exponent x the six binary operations"
		},
		Run:    c02Run,
		Replay: c02Replay,
		Assumptions: []string{
			"reference model R validated against the GDA vectors (selftest-ref)",
			"Subnormal is not asserted for Quantize/RoundToIntegralExact (DESIGN 5a.6); Rounded and Clamped only through implications",
		},
	})
}
