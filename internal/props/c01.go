package props

import (
	"encoding/json"
	"fmt"
	"strings"

	"github.com/cockroachdb/apd/v3"

	"verif/internal/core"
	"verif/internal/ref"
)

// C01: exactly rounded results of Add/Sub/Mul/Quo/Abs/Neg/Round and context-aware parsing.

var c01Binary = []string{"Add", "Sub", "Mul", "Quo"}
var c01Unary = []string{"Abs", "Neg", "Round"}

// spellings returns grammatical spellings of a finite value: scientific with
// integer coefficient, point after the first digit, and plain when short.
func spellings(v ref.Val) []string {
	sign := ""
	if v.Neg {
		sign = "-"
	}
	digs := v.Coef.String()
	out := []string{fmt.Sprintf("%s%sE%d", sign, digs, v.Exp)}
	if len(digs) > 1 {
		out = append(out, fmt.Sprintf("%s%s.%se%+d", sign, digs[:1], digs[1:], v.Exp+len(digs)-1))
	} else {
		ps := "+"
		if v.Neg {
			ps = "-"
		}
		out = append(out, fmt.Sprintf("%s%s.E%d", ps, digs, v.Exp))
	}
	if v.Exp <= 0 && v.Exp >= -12 {
		n := -v.Exp
		for len(digs) <= n {
			digs = "0" + digs
		}
		s := digs[:len(digs)-n]
		if n > 0 {
			s += "." + digs[len(digs)-n:]
		}
		out = append(out, sign+s)
	} else if v.Exp > 0 && v.Exp <= 12 {
		out = append(out, sign+digs+strings.Repeat("0", v.Exp))
	}
	return out
}

// c01One checks one case. It returns the input class, whether the outcome is
// trivial, and a failure message ("" if the property holds).
func c01One(op string, x Operand, y *Operand, cc CtxCase, str string) (cls string, trivial bool, msg string) {
	var yv ref.Val
	var yd *apd.Decimal
	if y != nil {
		yv, yd = y.V, y.D
	}
	ex, zeroFree, ok := arithExact(op, x.V, yv, cc.R)
	if !ok {
		return op + "/undefined", true, ""
	}
	want := ref.Round(ex, cc.R)
	cls = resultClass(op, ex, want, cc.R)
	trivial = outcomeTrivial(cls)
	var d apd.Decimal
	var res apd.Condition
	var err error
	var pan string
	c := cc.C
	if op == "SetString" {
		func() {
			defer func() {
				if r := recover(); r != nil {
					pan = fmt.Sprint(r)
				}
			}()
			var dp *apd.Decimal
			dp, res, err = c.SetString(&d, str)
			if err == nil && dp != &d {
				pan = "SetString did not return its destination"
			}
		}()
	} else {
		res, err, pan = callOp(op, &c, &d, x.D, yd, 0)
	}
	if pan != "" {
		return cls, trivial, "panic: " + pan
	}
	if err != nil {
		if isSysErr(res, err) && (nearLimit(x.V, yv) || want.Unspec) {
			return cls + "/syslimit", false, ""
		}
		return cls, trivial, fmt.Sprintf("unexpected error %q (flags %s) with empty trap set; want %s", err, ref.FlagNames(int(res)), want.V)
	}
	if want.Unspec {
		return cls + "/unspecified", false, ""
	}
	got := ToVal(&d)
	if got.Form == ref.Finite && got.Coef.Sign() < 0 {
		return cls, trivial, fmt.Sprintf("negative coefficient in result %s", got)
	}
	if zeroFree && got.Form == ref.Finite && got.Coef.Sign() == 0 {
		got.Neg = want.V.Neg
	}
	if !ref.EqualNumeric(got, want.V) {
		return cls, trivial, fmt.Sprintf("got %s [%s], want %s (exact %v*10^%d sticky=%v neg=%v rounded once)", got, ref.FlagNames(int(res)), want.V, ex.N, ex.E, ex.Sticky, ex.Neg)
	}
	return cls, trivial, ""
}

func c01Run(e *core.Env) {
	sp := buildArithSpace(e.Tier, e.Seed)
	do := func(op string, x Operand, y *Operand, cc CtxCase, str string) {
		cls, triv, msg := c01One(op, x, y, cc, str)
		e.Trans(1)
		e.Outcome(cls, triv)
		if msg != "" || e.WantSample() {
			a := mkCase(op, x, y, cc)
			a.Str = str
			if msg != "" {
				e.Fail(cls, "arith", a, a.String()+": "+msg)
			} else {
				e.Sample(a.String() + " => " + cls)
			}
		}
	}
	// binary operations
	for ix := range sp.Xs {
		if !e.Mine(int64(ix)) {
			continue
		}
		if e.Expired() {
			e.Cap("soft deadline in binary sweep")
			break
		}
		x := sp.Xs[ix]
		for iy := range sp.Ys {
			y := sp.Ys[iy]
			e.State()
			for _, cc := range sp.Ctxs {
				for _, op := range c01Binary {
					do(op, x, &y, cc, "")
				}
			}
		}
	}
	// unary operations and parsing
	for iu := range sp.Us {
		if !e.Mine(int64(iu)) {
			continue
		}
		u := sp.Us[iu]
		e.State()
		sps := spellings(u.V)
		for _, cc := range sp.Ctxs {
			for _, op := range c01Unary {
				do(op, u, nil, cc, "")
			}
			for _, s := range sps {
				do("SetString", u, nil, cc, s)
			}
		}
	}
	// high-precision block
	for iu := range sp.HiUs {
		if !e.Mine(int64(iu)) {
			continue
		}
		e.State()
		for _, cc := range sp.HiCtxs {
			for _, op := range c01Unary {
				do(op, sp.HiUs[iu], nil, cc, "")
			}
		}
	}
	for ip := range sp.HiPairs {
		if !e.Mine(int64(ip)) {
			continue
		}
		e.State()
		pr := sp.HiPairs[ip]
		for _, cc := range sp.HiCtxs {
			for _, op := range c01Binary {
				do(op, pr[0], &pr[1], cc, "")
			}
		}
	}
	// WIDE-EDGE family (space.go): wide products at the edges of the exponent range
	for iw, w := range wideEdge() {
		if !e.Mine(int64(iw)) {
			continue
		}
		e.State()
		y := w.Y
		for _, cc := range w.Ctxs {
			for _, op := range c01Binary {
				do(op, w.X, &y, cc, "")
			}
		}
	}
	// precision 0: exact results, package exponent range
	p0 := []CtxCase{MkCtx(0, -100000, 100000, apd.RoundHalfUp, 0), MkCtx(0, -100000, 100000, apd.RoundFloor, 0), MkCtx(0, -100000, 100000, "", 0)}
	p0x := append(append([]Operand{}, sp.Us...), limitOperands()...)
	for ix := range p0x {
		if !e.Mine(int64(ix)) {
			continue
		}
		x := p0x[ix]
		for _, cc := range p0 {
			for _, op := range c01Unary {
				do(op, x, nil, cc, "")
			}
		}
		// pairs with a small second family (and the limit family, small cross product)
		ys := sp.Ys
		if nearLimit(x.V) {
			ys = limitOperands()
		}
		for iy := range ys {
			if iy%7 != ix%7 && !nearLimit(x.V) {
				continue
			}
			y := ys[iy]
			for _, cc := range p0 {
				for _, op := range []string{"Add", "Sub", "Mul"} {
					do(op, x, &y, cc, "")
				}
			}
		}
	}
	// LIMIT family under rounding contexts with the package range
	lim := limitOperands()
	for ix := range lim {
		if !e.Mine(int64(ix)) {
			continue
		}
		for iy := range lim {
			for _, p := range []uint32{1, 3} {
				for _, m := range []apd.Rounder{apd.RoundHalfEven, apd.RoundFloor, apd.RoundUp} {
					cc := MkCtx(p, -100000, 100000, m, 0)
					for _, op := range c01Binary {
						do(op, lim[ix], &lim[iy], cc, "")
					}
				}
			}
		}
	}
}

func c01Replay(kind string, raw json.RawMessage) string {
	a, err := decodeArith(raw)
	if err != nil {
		return "bad replay file: " + err.Error()
	}
	x := a.X.Op()
	var y *Operand
	if a.Y != nil {
		o := a.Y.Op()
		y = &o
	}
	_, _, msg := c01One(a.Op, x, y, a.Ctx.Ctx(), a.Str)
	if msg != "" {
		return a.String() + ": " + msg
	}
	return ""
}

func init() {
	core.Register(&core.Prop{
		ID:    "C01",
		Title: "Add/Sub/Mul/Quo/Abs/Neg/Round return the exactly rounded result",
		Rule:  "every (operation x operand tuple x context) point of the finite product is executed on the real code and compared with the reference model's single rounding of the exact result; a case is non-trivial when the reference result is inexact, subnormal, overflowing or at a system limit (class != */exact)",
		Bounds: func(tier string) string {
			return buildArithSpace(tier, 0).Desc + "; ops Add,Sub,Mul,Quo on X x Y; Abs,Neg,Round,SetString(3 spellings) on U; precision 0 with the package range; LIMIT x LIMIT at p in {1,3}; WIDE-EDGE family: 8x8 coefficient pairs of 10..21 digits x precision {n-1,n,n+1,60} x 3 modes x MinExponent/MaxExponent -2..+2 steps around the adjusted exponent of the exact product"
		},
		Run:    c01Run,
		Replay: c01Replay,
		Assumptions: []string{
			"reference model R (math/big exact arithmetic + GDA rounding table) is correct; it is validated against the GDA .decTest vectors by `vcheck selftest-ref`",
			"inputs outside the enumerated finite product are not covered",
			"at the package exponent limits a system-limit error is accepted",
		},
	})
}
