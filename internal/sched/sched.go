// Package sched is the controlled cooperative scheduler (engine E3): harness threads are goroutines of
// which exactly one holds the baton; Yield is called at every scheduling point of the instrumented code
// and consults the current choice sequence. The explorer enumerates every schedule within a preemption
// bound by depth-first search over choice sequences.
package sched

import (
	"fmt"
)

// Point is one scheduling decision of an execution.
type Point struct {
	Thread   int  // thread that was running (or -1 for start/finish hand-overs)
	Site     int  // instrumentation site (0 for start/finish)
	NAlt     int  // number of alternatives at this point (>= 1)
	Choice   int  // alternative taken
	Preempt  bool // alternatives > 0 switch away from a runnable thread
	Eligible bool // alternatives may be explored here (occurrence filter)
}

// Exec is the record of one complete execution.
type Exec struct {
	Points  []Point
	Choices []int
}

type thread struct {
	id   int
	wake chan struct{}
	done bool
	body func()
	// blocked: the thread waits (in Block) until the condition holds; it is not enabled before
	blocked func() bool
}

// Scheduler runs bodies under a choice sequence.
type Scheduler struct {
	threads []*thread
	cur     int
	active  bool
	prefix  []int
	exec    *Exec
	mainCh  chan struct{}
	// MaxOcc: a site is an eligible preemption point only for its first MaxOcc dynamic occurrences per
	// thread (0 = every occurrence).
	MaxOcc int
	occ    []map[int]int
	// OnSwitch is called (on the thread giving up the baton) whenever the baton changes hands.
	OnSwitch func()
	err      error
	quiet    int // > 0: Yield is a no-op (harness code running on a thread's goroutine)
}

// Quiet runs f with scheduling points disabled: harness code (snapshots, result formatting) may call
// instrumented library code, which must not become decision points or re-enter the scheduler.
func (s *Scheduler) Quiet(f func()) {
	s.quiet++
	defer func() { s.quiet-- }()
	f()
}

// New creates a scheduler.
func New() *Scheduler { return &Scheduler{mainCh: make(chan struct{})} }

func (s *Scheduler) nextChoice(nalt int) int {
	i := len(s.exec.Choices)
	c := 0
	if i < len(s.prefix) {
		c = s.prefix[i]
		if c < 0 || c >= nalt {
			if s.err == nil {
				s.err = fmt.Errorf("replay divergence: choice %d at point %d has only %d alternatives", c, i, nalt)
			}
			c = 0
		}
	}
	s.exec.Choices = append(s.exec.Choices, c)
	return c
}

// others returns the ids of unfinished threads other than me, ascending.
func (s *Scheduler) others(me int) []int {
	var o []int
	for _, t := range s.threads {
		if !t.done && t.id != me && (t.blocked == nil || t.blocked()) {
			o = append(o, t.id)
		}
	}
	return o
}

// unfinished reports whether a thread other than me has not finished (enabled or not).
func (s *Scheduler) unfinished(me int) bool {
	for _, t := range s.threads {
		if !t.done && t.id != me {
			return true
		}
	}
	return false
}

// Block is the blocking point of the lock shims in the instrumented code (Mutex.Lock, RWMutex, Once): the
// calling thread is disabled until cond holds. The hand-over to another enabled thread is a decision point
// without preemption cost (the running thread cannot continue); no enabled thread at all is a deadlock.
func (s *Scheduler) Block(cond func() bool) {
	if cond() {
		return
	}
	if !s.active || s.quiet > 0 {
		panic("verif/sched: a lock is held by nobody who could release it (blocking outside the scheduler)")
	}
	me := s.threads[s.cur]
	me.blocked = cond
	for {
		oth := s.others(me.id)
		if len(oth) == 0 {
			s.deadlock(fmt.Sprintf("deadlock: thread %d waits for a lock and no other thread can run", me.id))
			select {} // parked for good; Run has returned through mainCh
		}
		c := 0
		if len(oth) > 1 {
			c = s.nextChoice(len(oth))
			s.exec.Points = append(s.exec.Points, Point{Thread: me.id, Site: 0, NAlt: len(oth), Choice: c})
		}
		to := s.threads[oth[c]]
		if s.OnSwitch != nil {
			s.Quiet(s.OnSwitch)
		}
		s.cur = to.id
		to.wake <- struct{}{}
		<-me.wake
		if cond() {
			me.blocked = nil
			return
		}
	}
}

func (s *Scheduler) deadlock(msg string) {
	if s.err == nil {
		s.err = fmt.Errorf("%s", msg)
	}
	s.active = false
	s.mainCh <- struct{}{}
}

// Yield is the scheduling point called from the instrumented code.
func (s *Scheduler) Yield(site int) {
	if !s.active || s.quiet > 0 {
		return
	}
	me := s.threads[s.cur]
	oth := s.others(me.id)
	if len(oth) == 0 {
		return
	}
	eligible := true
	if s.MaxOcc > 0 {
		n := s.occ[me.id][site]
		s.occ[me.id][site] = n + 1
		eligible = n < s.MaxOcc
	}
	if !eligible {
		// not a decision point: keeps the choice sequence short for long-running calls
		return
	}
	c := s.nextChoice(len(oth) + 1)
	s.exec.Points = append(s.exec.Points, Point{Thread: me.id, Site: site, NAlt: len(oth) + 1, Choice: c, Preempt: true, Eligible: true})
	if c == 0 {
		return
	}
	to := s.threads[oth[c-1]]
	if s.OnSwitch != nil {
		s.Quiet(s.OnSwitch)
	}
	s.cur = to.id
	to.wake <- struct{}{}
	<-me.wake
}

func (s *Scheduler) finish(t *thread) {
	t.done = true
	oth := s.others(t.id)
	if len(oth) == 0 {
		if s.unfinished(t.id) {
			s.deadlock("deadlock: every unfinished thread waits for a lock")
			return
		}
		s.active = false
		s.mainCh <- struct{}{}
		return
	}
	c := 0
	if len(oth) > 1 {
		c = s.nextChoice(len(oth))
		s.exec.Points = append(s.exec.Points, Point{Thread: -1, NAlt: len(oth), Choice: c})
	}
	if s.OnSwitch != nil {
		s.Quiet(s.OnSwitch)
	}
	to := s.threads[oth[c]]
	s.cur = to.id
	to.wake <- struct{}{}
}

// Run executes the bodies under the given choice prefix (choice 0 afterwards).
func (s *Scheduler) Run(bodies []func(), prefix []int) (*Exec, error) {
	s.threads = nil
	s.occ = nil
	for i, b := range bodies {
		s.threads = append(s.threads, &thread{id: i, wake: make(chan struct{}), body: b})
		s.occ = append(s.occ, map[int]int{})
	}
	s.prefix = prefix
	s.exec = &Exec{}
	s.err = nil
	var panics []interface{}
	for _, t := range s.threads {
		t := t
		go func() {
			<-t.wake
			func() {
				defer func() {
					if r := recover(); r != nil {
						panics = append(panics, r)
					}
				}()
				t.body()
			}()
			s.finish(t)
		}()
	}
	s.active = true
	first := 0
	if len(bodies) > 1 {
		first = s.nextChoice(len(bodies))
		s.exec.Points = append(s.exec.Points, Point{Thread: -1, NAlt: len(bodies), Choice: first})
	}
	s.cur = first
	s.threads[first].wake <- struct{}{}
	<-s.mainCh
	if len(panics) > 0 && s.err == nil {
		s.err = fmt.Errorf("thread panicked: %v", panics[0])
	}
	return s.exec, s.err
}

// Explorer enumerates all schedules within a preemption bound.
type Explorer struct {
	S      *Scheduler
	Bodies func() []func() // fresh bodies (fresh destinations) per execution
	Bound  int
	// Check is called after every complete execution.
	Check func(x *Exec, err error)
	// Shard/NShards split the first-level alternatives over workers.
	Shard, NShards int
	Execs          int64
	Budget         int64 // stop after this many executions (0 = unlimited); reported by Capped
	Capped         bool
	// Stop, when set, is polled before every execution; true ends the exploration (reported by Capped).
	Stop func() bool
}

func preemptionsBefore(x *Exec, i int) int {
	n := 0
	for k := 0; k < i; k++ {
		if x.Points[k].Preempt && x.Points[k].Choice != 0 {
			n++
		}
	}
	return n
}

// Explore runs the DFS of the brief: run a prefix, then for every later point and every alternative whose
// preemption cost stays within the bound, recurse.
func (e *Explorer) Explore() {
	e.explore(nil, false)
}

// sharded: the path already contains the preemption at which the work is split over the workers (the
// split happens at the first preemption, so that subtrees of comparable size are distributed).
func (e *Explorer) explore(prefix []int, sharded bool) {
	if e.Budget > 0 && e.Execs >= e.Budget {
		e.Capped = true
		return
	}
	if e.Capped || (e.Stop != nil && e.Execs%64 == 0 && e.Stop()) {
		e.Capped = true
		return
	}
	x, err := e.S.Run(e.Bodies(), prefix)
	e.Execs++
	e.Check(x, err)
	if err != nil {
		return
	}
	for i := len(prefix); i < len(x.Points); i++ {
		p := x.Points[i]
		cost := preemptionsBefore(x, i)
		for alt := 1; alt < p.NAlt; alt++ {
			c := cost
			if p.Preempt {
				c++
			}
			if c > e.Bound {
				continue
			}
			sh := sharded
			if p.Preempt && !sharded {
				if e.NShards > 1 && (i*7+alt)%e.NShards != e.Shard {
					continue
				}
				sh = true
			}
			np := append(append([]int{}, x.Choices[:i]...), alt)
			e.explore(np, sh)
		}
	}
}
