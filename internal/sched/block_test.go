package sched

import (
	"strings"
	"testing"
)

// a lock in the style of the overlay's shim: blocking goes through Scheduler.Block.
type tlock struct {
	s    *Scheduler
	held bool
}

func (l *tlock) Lock()   { l.s.Block(func() bool { return !l.held }); l.held = true }
func (l *tlock) Unlock() { l.held = false }

// TestBlockMutualExclusion: a read-modify-write split by a scheduling point loses updates without the
// lock and never with it, over every schedule within the bound.
func TestBlockMutualExclusion(t *testing.T) {
	for _, locked := range []bool{false, true} {
		s := New()
		l := &tlock{s: s}
		counter := 0
		lost := 0
		ex := &Explorer{S: s, Bound: 2, NShards: 1}
		ex.Bodies = func() []func() {
			counter = 0
			l.held = false
			body := func() {
				s.Yield(1)
				if locked {
					l.Lock()
				}
				v := counter
				s.Yield(2)
				counter = v + 1
				if locked {
					l.Unlock()
				}
				s.Yield(3)
			}
			return []func(){body, body, body}
		}
		ex.Check = func(x *Exec, err error) {
			if err != nil {
				t.Fatalf("locked=%v: %v", locked, err)
			}
			if counter != 3 {
				lost++
			}
		}
		ex.Explore()
		if locked && lost != 0 {
			t.Errorf("with the lock %d of %d schedules lost an update", lost, ex.Execs)
		}
		if !locked && lost == 0 {
			t.Errorf("without the lock no schedule of %d lost an update: the explorer is not exploring", ex.Execs)
		}
		t.Logf("locked=%v: %d schedules, %d with a lost update", locked, ex.Execs, lost)
	}
}

// TestBlockDeadlock: two locks taken in opposite orders deadlock in some schedules and only there.
func TestBlockDeadlock(t *testing.T) {
	s := New()
	a, b := &tlock{s: s}, &tlock{s: s}
	dead, fine := 0, 0
	ex := &Explorer{S: s, Bound: 1, NShards: 1}
	ex.Bodies = func() []func() {
		a.held, b.held = false, false
		return []func(){
			func() { a.Lock(); s.Yield(1); b.Lock(); b.Unlock(); a.Unlock() },
			func() { b.Lock(); s.Yield(2); a.Lock(); a.Unlock(); b.Unlock() },
		}
	}
	ex.Check = func(x *Exec, err error) {
		if err != nil {
			if !strings.Contains(err.Error(), "deadlock") {
				t.Fatalf("unexpected error %v", err)
			}
			dead++
			return
		}
		fine++
	}
	ex.Explore()
	if dead == 0 || fine == 0 {
		t.Errorf("deadlocked schedules=%d, completed schedules=%d; want both > 0", dead, fine)
	}
	t.Logf("%d schedules: %d deadlock, %d complete", ex.Execs, dead, fine)
}
