#!/bin/bash
# baseline.sh [repo-dir] -- runs the repository's own test suite (guard OFF: no build tag) and compares the
# set of passing tests with /root/.vp/BASELINE.json (stable_pass). exit 0 iff every stable-pass test passes.
export GOFLAGS=-mod=mod GOPROXY=off GOSUMDB=off GOTOOLCHAIN=local
DIR="${1:-/repo}"
cd "$DIR" || exit 2
go test -json -vet=off -count=1 -timeout 25m ./... > /tmp/verif-baseline.$$.json 2>/dev/null
python3 - /tmp/verif-baseline.$$.json <<'PY'
import json,sys
passed=set(); failed=set()
for l in open(sys.argv[1]):
    try: ev=json.loads(l)
    except Exception: continue
    t=ev.get('Test')
    if not t: continue
    k=ev['Package']+'::'+t
    if ev.get('Action')=='pass': passed.add(k)
    elif ev.get('Action')=='fail': failed.add(k)
base=set(json.load(open('/root/.vp/BASELINE.json'))['stable_pass'])
missing=sorted(base-passed)
print(f"baseline: stable_pass={len(base)} passed_now={len(passed)} failed_now={len(failed)} missing_from_baseline={len(missing)}")
for m in missing[:20]: print("  NOT PASSING:", m)
for f in sorted(failed)[:10]: print("  failing:", f)
sys.exit(1 if missing else 0)
PY
rc=$?
rm -f /tmp/verif-baseline.$$.json
exit $rc
