// vcheck: one binary for all property checks.
//
//	vcheck <ID> [--tier quick|thorough] [--seed N] [--workers N]
//	vcheck worker <ID> --tier T --seed N --shard i --nshards n --out file   (internal)
//	vcheck replay <file>
//	vcheck list
package main

import (
	"fmt"
	"os"
	"strconv"

	"verif/internal/core"
	_ "verif/internal/props"
)

func main() {
	args := os.Args[1:]
	if len(args) == 0 {
		fmt.Fprintln(os.Stderr, "usage: vcheck <ID>|worker|replay|list ...")
		os.Exit(2)
	}
	opt := map[string]string{"tier": "quick", "seed": "0", "workers": "16", "shard": "0", "nshards": "1", "out": "", "soft": "0", "reps": "0"}
	if t := os.Getenv("VERIF_TIER"); t == "quick" || t == "thorough" {
		opt["tier"] = t
	}
	if s := os.Getenv("VERIF_SEED"); s != "" {
		if _, err := strconv.ParseInt(s, 10, 64); err == nil {
			opt["seed"] = s
		}
	}
	var pos []string
	for i := 0; i < len(args); i++ {
		a := args[i]
		if len(a) > 2 && a[:2] == "--" && i+1 < len(args) {
			opt[a[2:]] = args[i+1]
			i++
			continue
		}
		pos = append(pos, a)
	}
	atoi := func(k string) int { n, _ := strconv.Atoi(opt[k]); return n }
	seed, _ := strconv.ParseInt(opt["seed"], 10, 64)
	if v := os.Getenv("VERIF_DIR"); v != "" {
		core.VerifDir = v
	}
	switch pos[0] {
	case "list":
		for _, id := range core.IDs() {
			fmt.Println(id, core.Lookup(id).Title)
		}
	case "selftest-ref":
		dir := "/repo/testdata"
		if len(pos) > 1 {
			dir = pos[1]
		}
		os.Exit(core.SelfTest(dir))
	case "race-pass":
		if core.RacePass == nil {
			fmt.Fprintln(os.Stderr, "race-pass needs the instrumented (verif-tagged) build")
			os.Exit(2)
		}
		reps := atoi("reps")
		if reps <= 0 {
			reps = 300
		}
		if bad := core.RacePass(reps); bad > 0 {
			os.Exit(1)
		}
		fmt.Println("race-pass: bodies completed")
	case "replay":
		if len(pos) < 2 {
			os.Exit(2)
		}
		os.Exit(core.ReplayMain(pos[1]))
	case "worker":
		core.WorkerMain(pos[1], opt["tier"], seed, atoi("shard"), atoi("nshards"), opt["out"], atoi("soft"))
	default:
		self, err := os.Executable()
		if err != nil {
			fmt.Fprintln(os.Stderr, err)
			os.Exit(2)
		}
		soft := atoi("soft")
		os.Exit(core.ParentMain(self, pos[0], opt["tier"], seed, atoi("workers"), soft))
	}
}
