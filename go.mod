module verif

go 1.17

require github.com/cockroachdb/apd/v3 v3.0.0

replace github.com/cockroachdb/apd/v3 => /repo
