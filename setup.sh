#!/bin/bash
# setup.sh -- builds the framework from files on disk only (offline) and warms the build cache
# (plain, instrumented-overlay and -race builds) so that the checks start quickly.
set -e
cd "$(dirname "$0")"
export GOFLAGS=-mod=mod GOPROXY=off GOSUMDB=off GOTOOLCHAIN=local
mkdir -p bin evidence replays
go build -o bin/vcheck ./cmd/vcheck
go run ./cmd/vinstr -src /repo -out bin/_overlay
go build -tags verif -overlay bin/_overlay/overlay.json -o bin/vcheck-shadow ./cmd/vcheck
go build -race -tags verif -overlay bin/_overlay/overlay.json -o bin/vcheck-race ./cmd/vcheck
# conformance of the instrumentation: the repository's own tests must pass inside the overlay build
(cd /repo && go test -tags verif -overlay /verif/bin/_overlay/overlay.json -vet=off -count=1 ./... > /verif/bin/_overlay-selftest.log 2>&1) || { echo "overlay conformance run failed"; tail -5 bin/_overlay-selftest.log; exit 1; }
# the reference model must agree with the GDA vector files (external authority), else nothing it says is believed
./bin/vcheck selftest-ref /repo/testdata > bin/selftest-ref.log 2>&1 || { echo "reference model self-test failed"; head -20 bin/selftest-ref.log; exit 1; }
head -1 bin/selftest-ref.log
# the scheduler's own tests: lost updates found without a lock and never with one, lock-order deadlocks detected
go test -count=1 ./internal/sched/ > bin/sched-selftest.log 2>&1 || { echo "scheduler self-test failed"; tail -20 bin/sched-selftest.log; exit 1; }
echo "setup ok"
