#!/bin/bash
# setup.sh -- builds the framework from files on disk only (offline).
set -e
cd "$(dirname "$0")"
export GOFLAGS=-mod=mod GOPROXY=off GOSUMDB=off GOTOOLCHAIN=local
mkdir -p bin evidence replays
go build -o bin/vcheck ./cmd/vcheck
echo "setup ok"
