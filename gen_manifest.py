#!/usr/bin/env python3
"""Regenerates MANIFEST.json from the table below (single source of truth for the interface)."""
import json, subprocess

CHECKS = {
 # id: (engine, technique, level text, level note, design_ref)
 "C01": ("opspace", "bounded-exhaustive enumeration of the operation/operand/context product on the real code, each execution compared with an exact-arithmetic reference model",
         "Every point of a finite product (Add/Sub/Mul/Quo/Abs/Neg/Round/SetString x operand tuples x precisions x exponent ranges x 10 rounding-mode settings) is executed on /repo's current tree and compared with the reference model's single rounding of the exact result; the product contains every rounding selector (ties, half+-1, all-nines carries, subnormal, Etiny, overflow, 64/128-bit coefficient edges, package limits).",
         "Reference model R (math/big + GDA table) is trusted after validation against the GDA vectors; nothing outside the enumerated product is claimed.", "4/C01"),

 "C02": ("opspace", "bounded-exhaustive enumeration of the operation/operand/context product on the real code, Condition compared bit-for-bit with flags derived by the reference model from the exact result",
         "Every point of the finite product (11 operations x operand tuples x contexts x rounding modes, empty trap set) is executed and its Condition compared with the reference flags (exact bi-implications for 8 conditions, implications for Rounded/Clamped, no undocumented bit).",
         "Reference model R trusted after validation against the GDA vectors; Subnormal not asserted for Quantize/RoundToIntegralExact; Rounded/Clamped only through implications.", "4/C02"),
 "C07": ("opspace", "bounded-exhaustive enumeration of the operation/operand/context product on the real code with a fit invariant evaluated on every result",
         "Every point of the finite product (18 operations incl. transcendental functions x operand tuples x contexts) is executed and the result checked against the context-fit invariant; no reference model is involved.",
         "Digits are counted from the decimal text of the coefficient; only the enumerated product is claimed.", "4/C07"),
 "C20": ("opspace", "bounded-exhaustive enumeration; relational oracle between the eight rounding-mode executions and transformed-operand executions of the implementation itself",
         "Every (operation x operands x precision x exponent range) point is executed under all eight rounding modes and under swapped / negated+mirrored / power-of-ten-scaled operands; bracketing, half-mode membership, exactness agreement, floor/ceiling adjacency, commutativity, Sub=Add(-y), mirror and scaling relations and Round monotonicity are checked on every point without any reference model.",
         "Adjacency is computed from the context grid; only the enumerated product is claimed.", "4/C20"),

 "C09": ("opspace", "bounded-exhaustive enumeration of (x, target exponent, context, mode) on the real code against an exact integer quotient/remainder oracle",
         "Every point of the finite product is executed for Quantize, RoundToIntegralValue/Exact, Ceil and Floor and compared with x/10^e rounded to an integer by the GDA decision table (exact exponent, InvalidOperation rule, Inexact/Rounded rules, never Underflow/Overflow).",
         "Exact integer oracle on math/big; quantifier restrictions of the property (rounded integer within Emax; integer part fits the precision for Ceil/Floor) are applied.", "4/C09"),
 "C10": ("opspace", "bounded-exhaustive enumeration of operand pairs x contexts on the real code against exact integer division on a common exponent",
         "Every finite pair of the product runs QuoInteger and Rem and is compared with q*=trunc(x/y), r*=x-q*y (DivisionImpossible rule, signs, exponent 0, single rounding of r*, mode-independence when r* fits), including exponent gaps up to and beyond the package limit.",
         "Exact integer oracle on math/big.", "4/C10"),
 "C15": ("opspace", "exhaustive enumeration of all ordered pairs and triples of a finite value alphabet on the real code against exact comparison and the order axioms",
         "All ordered pairs of V (Cmp, Context.Cmp, CmpTotal: exact order, antisymmetry, zero iff identical, documented class order, exponent tie-break) and all ordered triples of W (transitivity), including NaN payloads, dirty infinities, coinciding digit-count+exponent sums and gaps up to the package limit.",
         "NaN payload order within a class is only checked through the axioms.", "4/C15"),
 "C19": ("opspace", "exhaustive enumeration of integers (dense range + every bit-length and power-of-ten boundary) and of m*10^t decimals x destination pre-states x contexts on the real code",
         "NumDigits on every |b| < 2^20 (2^22 thorough) and every bit-length/power-of-ten boundary up to thousands of bits, both signs, against the decimal text length; Decimal.Reduce/Context.Reduce on the m*10^t family against value equality, no trailing zero, exact count, independence of the destination.",
         "Zero-count convention: zeros of the rounded coefficient; zero operand => 0.", "4/C19"),

 "C16": ("stategraph", "explicit-state BFS over method sequences on a real BigInt receiver with canonical state hashing, every transition mirrored on a math/big.Int object graph with identical aliasing",
         "States are receivers (value, representation class inline+/inline-/heap-small/heap) reached by method sequences to depth 2 (3 thorough); from every state every method x argument tuple x alias pattern of the alphabet is applied to the real BigInt and to a *big.Int mirror; all observers (Sign, BitLen, Cmp, text in 5 bases, bytes, bits, 64-bit conversions, encoders, fmt verbs), panic parity, argument immutability and representation invariants (no negative zero) are compared on every transition; plus the complete argument tables of Binomial (n <= 140), MulRange (-6..40) and ModSqrt (13 primes up to 2^127-1).",
         "math/big is the reference; only alias patterns math/big supports; receiver undefined after a failed SetString is not observed.", "4/C16"),

 "C13": ("opspace", "exhaustive enumeration of a finite Decimal/float64 space through every producer x consumer pair on the real code (round-trip identity oracle)",
         "Every Decimal of the text space (all switch-over exponents, package limits, zero window, specials) through 12 producers x 5 consumers with field-wise identity; Compose(Decompose) with 4 buffer shapes x 7 destination pre-states; SetFloat64/Float64 bit identity and shortest-coefficient on 2 x 2048 exponents x 220 mantissa patterns.",
         "strconv.ParseFloat trusted for float nearest-ness; canonical non-finite values only (payloads are documented as ignored).", "4/C13"),
 "C14": ("opspace", "exhaustive enumeration of all token strings up to a length bound (language membership against a hand-written recogniser) and of a finite Decimal x verb x flag x width product against an independent formatter",
         "String/Text byte-for-byte against an independent to-scientific-string formatter on the text space; Format under 13 verbs x 32 flag subsets x 17 widths; parser language membership for every string of <= 5 (6 thorough) tokens over a 29-token alphabet, multi-token combinations, all single and bounded double edits of 39 grammatical seeds and the exponent-limit family, through five entry points that must agree.",
         "The recogniser and formatter are written from the GDA text; the string space is bounded by length.", "4/C14"),

 "C17": ("opspace", "exhaustive enumeration of boundary families (int64 edges x powers of ten, float64 values/midpoints/perturbations, DENSE+EDGE for Modf) on the real code against exact rational arithmetic",
         "Int64 on floor(2^63/10^k)+-2 x trailing zeros x boundary-crossing exponents x signs (never a wrapped value), constructors on the int64 boundary set, Float64 against big.Rat nearest-even on exact float values, float midpoints and +-1-unit perturbations and the overflow/underflow thresholds, Modf on DENSE(3,6)+EDGE with either output nil.",
         "big.Rat.Float64 is the nearest-even reference.", "4/C17"),

 "C05": ("opspace", "bounded-exhaustive enumeration of operation x operands x context x alias pattern on the real code; differential oracle against the distinct-object execution",
         "Every destination-writing operation x operand tuple x context x alias pattern {d==x, d==y, x==y, d==x==y} (and the Modf output shapes) is run on fresh objects and compared with the run on distinct objects holding equal values (result, Condition, error, integer results, deep snapshot of untouched operands); BigInt methods under receiver/argument aliasing are mirrored on math/big.",
         "No reference model; only the enumerated operand/context product.", "4/C05"),
 "C06": ("opspace", "bounded-exhaustive enumeration of operation x operands x context x destination pre-state on the real code, closed under the operations to depth 2; differential oracle plus deep snapshots",
         "Every operation (Context operations, Decimal methods, Modf shapes, parsers, setters, Compose, Scan) x operands x contexts is executed once per destination pre-state (11 incl. NaN, dirty infinity, huge/heap coefficient, malformed garbage); outcomes must coincide and operands/Context stay bit-for-bit unchanged (hidden BigInt representation included); raw results of depth-1 operations are operands at depth 2 and are compared with freshly parsed equal values.",
         "Package-global immutability is decided by the instrumented build (snapshot of every package-level variable); differential oracle otherwise.", "4/C06"),
 "C08": ("opspace", "exhaustive enumeration of all operand pairs of a special-value alphabet x operations x contexts x trap sets on the real code against the GDA special-value table, closed to depth 2",
         "All 22 Context operations on all ordered pairs of NaN/sNaN (signs, payloads), clean and dirty infinities, signed zeros of many exponents and finite values, in contexts incl. floor/ceiling and trap sets; result class, sign, propagated payload, exact condition set and error-iff-trapped are compared with the table; special results produced by depth-1 operations are fed back as operands.",
         "Cbrt(-Inf) and signs of Neg/Ceil/Floor(0) not asserted; ordinary finite arithmetic delegated to C01/C02.", "4/C08"),

 "C03": ("opspace+stategraph", "bounded-exhaustive enumeration of (operation, operands, context) x the trap-set lattice on the real code with a relational oracle against the untrapped execution; explicit-state BFS of the ErrDecimal machine against a two-field model",
         "Part A: every case of the alphabet is run under the empty trap set and under 80 trap sets (all 4096 on a core of cases; everywhere for single-rounding operations in the thorough tier): trapped condition => error, nil error => identical result and flags, single-rounding operations: error iff trapped/system with the result delivered alongside; Sqrt/Cbrt of 66 operands whose conditions are raised in several places under the lattice sample plus every singleton and pair of conditions. Part B: BFS over sequences of the 21 ErrDecimal wrappers x 7 argument tuples plus SetTraps/PresetFlags pseudo-steps (writes to the exported fields) x 3 initial trap sets to depth 3 (+ all unmerged length-2 sequences) against the model 'once failed, nothing is touched; otherwise exactly the Context operation of the same name'.",
         "Composite functions may fail under non-empty trap sets although the final result is exact; errors of composite functions under the empty trap set are not judged by this property.", "4/C03"),

 "C11": ("opspace", "exhaustive enumeration of every coefficient below 10^(2p+2) for small precisions plus sparse guard-digit families and midpoint pre-images on the real code against an integer-root oracle with sticky bit",
         "Sqrt: value equals the exact root rounded half-even once and Inexact iff not exactly representable, for literally every significand class at p <= 2 (3 thorough), SHAPE families at p = 1..16 under all context modes, and the integers around every p-digit midpoint's square; Cbrt: exact (r+-ulp)^3 bracket and exactness on every perfect cube m^3, m < 2000 (10^4).",
         "One known finding is matched by an input predicate (root within two units of the (workp+5)-th digit of a midpoint).", "4/C11"),
 "C12": ("opspace", "bounded-exhaustive enumeration of function x operand x precision x range x mode on the real code against a high-precision real reference with explicit error bound and undecided handling",
         "Exp/Ln/Log10/Pow on dense and sparse operand families (operands longer than Precision, arguments 10^k(1+-10^-j), the 23*p thresholds), precisions 1..9 plus 16/34/60 and one operand per level of the ln10/1/ln10 constant tables; |result - true| <= 1 ulp decided with a reference whose precision is doubled until the question is decided; exact-by-definition cases exactly; overflow/underflow reports checked against the true magnitude.",
         "The reference's error bound is conservative but not machine-checked; two known findings are matched by input predicates.", "4/C12"),

 "C18": ("sched", "stateless model checking: cooperative scheduler + depth-first search over all schedules within a preemption bound at statement-level scheduling points of an instrumented overlay of the real code; separate free-running race-detector pass",
         "21 scenarios of 2-3 goroutines x 1-2 calls sharing one Context (incl. one with the empty rounding mode), the same inline/heap operands and the package tables (tableExp10 above 128, ln10 tables up to Precision 200, WithPrecision, Modf/upscale temporaries, Modf with a nil part, readers vs arithmetic, trapped conditions, fmt padding); every schedule with <= 1-2 preemptions is executed; each thread must return its solo result, the deep snapshot of operands and Context must be unchanged at every switch, and the package-level state (all variables and everything reachable, restored in place before every execution) must end in the initial state or in the state of some sequential order; sync.Mutex/RWMutex/Once block through the scheduler (deadlock = violation); failing schedules are replayed twice (determinism) and written as replayable choice lists; plus 300/2000 free-running repetitions under -race.",
         "Statement-level sequential consistency; composite calls are preempted at every site but only at its first 2 (4) dynamic occurrences per thread (reported as a cap, exhaustive=false); T<=3.", "4/C18"),

 "C04": ("opspace", "bounded-exhaustive enumeration of every exported entry point x receiver x argument tuple (generated per parameter type from finite pools) on the instrumented real code under a recover guard and a deterministic loop-fuel budget",
         "All 161 exported functions and methods (list read from the AST of the tree under test; a missing driver is a harness error) are called by reflection with every tuple of the per-type pools (complete product up to 40000 tuples per method, otherwise a fixed-stride sub-lattice), incl. all 256 format bytes, all printable fmt verbs x 32 flag subsets, every string of <= 4 tokens for the parsers, contexts with precision 0 and three trap sets, operands at the package limits, plus the iterated functions at Precision 330/400/1000 on ten extreme arguments; no panic (BigInt: only where math/big panics too), no loop-fuel exhaustion, well-formed Decimals after every successful call.",
         "Hang detection counts loop iterations inside package apd only; exponent limits are demanded of text input only (as the property states).", "4/C04"),
}

NOT_YET = {}

def main():
    props = [json.loads(l) for l in open('/verif/properties.jsonl')]
    checks = []
    na = []
    for p in props:
        i = p['id']
        if i in CHECKS:
            eng, tech, text, note, ref = CHECKS[i]
            checks.append({
                "property_id": i,
                "quick_cmd": f"./run.sh {i} quick",
                "thorough_cmd": f"./run.sh {i} thorough",
                "evidence_file": f"/verif/evidence/{i}.json",
                "replay_cmd_template": "./bin/vcheck replay {path}",
                "engine": eng,
                "level_claimed": {"category": "model_checking", "text": text, "design_ref": "DESIGN.md section " + ref},
                "level_note": note,
                "technique": tech,
            })
        else:
            na.append({"property_id": i, "reason": NOT_YET.get(i, "check not built yet in this snapshot of /verif (work in progress; see DESIGN.md section 4 for the planned bounded-exhaustive check)")})
    m = {
        "version": 1,
        "setup_cmd": "./setup.sh",
        "hooks": {
            "guard": "verif",
            "enable": "no hook is committed to /repo: checks that need scheduling points, loop fuel or a snapshot of unexported package variables build an instrumented overlay of /repo's working tree at check time (go build -tags verif -overlay, generated by cmd/vinstr)",
            "baseline_off_cmd": "/verif/baseline.sh /repo",
            "source_commits": [],
            "add_only": True,
        },
        "engines": [
            {"name": "opspace", "path": "/verif/internal/core + /verif/internal/props", "serves_properties": sorted(k for k,v in CHECKS.items() if "opspace" in v[0]), "kind_free_text": "bounded-exhaustive operation-space explorer over the real code with a reference model (E1)"},
            {"name": "stategraph", "path": "/verif/internal/props", "serves_properties": sorted(k for k,v in CHECKS.items() if "stategraph" in v[0]), "kind_free_text": "explicit-state BFS with canonical state hashing over method sequences on real objects (E2)"},
            {"name": "sched", "path": "/verif/internal/sched", "serves_properties": sorted(k for k,v in CHECKS.items() if v[0]=="sched"), "kind_free_text": "cooperative scheduler + DFS over interleavings with iterative preemption bounding on an instrumented overlay (E3)"},
        ],
        "checks": checks,
        "not_applicable": na,
        "notes": "All checks rebuild bin/vcheck against /repo's working tree (replace => /repo) before running. Exit 2 = harness/build error (never a VIOLATION line).",
    }
    json.dump(m, open('/verif/MANIFEST.json', 'w'), indent=1)
    print("checks:", len(checks), "not_applicable:", len(na))

main()
