#!/bin/bash
# run.sh <ID> [quick|thorough]  -- rebuilds the checker against /repo's current working tree, then runs the check.
# exit 0: property held on everything explored; 1: VIOLATION line(s) printed; 2: harness/build error.
# Checks that need scheduling points / loop fuel / package-global snapshots (SHADOW list) are built from an
# instrumented overlay of the tree under test (cmd/vinstr + go build -tags verif -overlay); /repo is never modified.
# Developer mode: VERIF_REPO=<dir> checks a scratch copy instead of /repo (evidence/replays then go to
# $VERIF_OUT, default /tmp/verif-alt-out, never to /verif/evidence).
set -u
cd "$(dirname "$0")"
export GOFLAGS=-mod=mod GOPROXY=off GOSUMDB=off GOTOOLCHAIN=local
ID="$1"; TIER="${2:-${VERIF_TIER:-quick}}"
SHADOW=" C04 C06 C18 "
mkdir -p bin evidence
SRC=/repo
SUF=""
MODARGS=""
if [ -n "${VERIF_REPO:-}" ]; then
  SRC="$VERIF_REPO"
  ALT=$(echo -n "$VERIF_REPO" | md5sum | cut -c1-8)
  sed "s#=> /repo#=> $VERIF_REPO#" go.mod > bin/alt-$ALT.mod
  cp go.sum bin/alt-$ALT.sum
  MODARGS="-modfile=bin/alt-$ALT.mod"
  SUF="-alt-$ALT"
  export VERIF_DIR="${VERIF_OUT:-/tmp/verif-alt-out}"
  mkdir -p "$VERIF_DIR"
  cp known_findings.json "$VERIF_DIR/" 2>/dev/null
fi
fail_build() {
  echo "BUILD-ERROR: the checker does not build against the tree under test" >&2
  tail -30 bin/build.log >&2
  exit 2
}
if [[ "$SHADOW" == *" $ID "* ]]; then
  OV=bin/_overlay$SUF
  rm -rf "$OV"
  go run ./cmd/vinstr -src "$SRC" -out "$OV" > bin/vinstr.log 2>&1 || { cat bin/vinstr.log >&2; echo "BUILD-ERROR: instrumentation failed" >&2; exit 2; }
  BIN=bin/vcheck-shadow$SUF
  go build $MODARGS -tags verif -overlay "$OV/overlay.json" -o $BIN ./cmd/vcheck 2> bin/build.log || fail_build
  if [ "$ID" = "C18" ]; then
    go build $MODARGS -race -tags verif -overlay "$OV/overlay.json" -o bin/vcheck-race ./cmd/vcheck 2> bin/build.log || fail_build
  fi
else
  BIN=bin/vcheck$SUF
  go build $MODARGS -o $BIN ./cmd/vcheck 2> bin/build.log || fail_build
fi
export VERIF_SRC="$SRC"
# thorough runs stop enumerating after a soft deadline (default 20 min) and then report the cap (exhaustive:false); exit 0
SOFT=0
[ "$TIER" = thorough ] && SOFT="${VERIF_SOFT_SECS:-1200}"
exec ./$BIN "$ID" --tier "$TIER" --soft "$SOFT"
