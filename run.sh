#!/bin/bash
# run.sh <ID> [quick|thorough]  -- rebuilds the checker against /repo's current working tree, then runs the check.
# exit 0: property held on everything explored; 1: VIOLATION line(s) printed; 2: harness/build error.
set -u
cd "$(dirname "$0")"
export GOFLAGS=-mod=mod GOPROXY=off GOSUMDB=off GOTOOLCHAIN=local
ID="$1"; TIER="${2:-${VERIF_TIER:-quick}}"
mkdir -p bin evidence
if ! go build -o bin/vcheck ./cmd/vcheck 2> bin/build.log; then
  echo "BUILD-ERROR: the checker does not build against /repo's working tree" >&2
  tail -30 bin/build.log >&2
  exit 2
fi
exec ./bin/vcheck "$ID" --tier "$TIER"
