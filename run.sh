#!/bin/bash
# run.sh <ID> [quick|thorough]  -- rebuilds the checker against /repo's current working tree, then runs the check.
# exit 0: property held on everything explored; 1: VIOLATION line(s) printed; 2: harness/build error.
# Developer mode: VERIF_REPO=<dir> checks a scratch copy instead of /repo (evidence/replays then go to
# $VERIF_OUT, default /tmp/verif-alt-out, never to /verif/evidence).
set -u
cd "$(dirname "$0")"
export GOFLAGS=-mod=mod GOPROXY=off GOSUMDB=off GOTOOLCHAIN=local
ID="$1"; TIER="${2:-${VERIF_TIER:-quick}}"
mkdir -p bin evidence
BIN=bin/vcheck
MODARGS=""
if [ -n "${VERIF_REPO:-}" ]; then
  ALT=$(echo -n "$VERIF_REPO" | md5sum | cut -c1-8)
  sed "s#=> /repo#=> $VERIF_REPO#" go.mod > bin/alt-$ALT.mod
  cp go.sum bin/alt-$ALT.sum
  MODARGS="-modfile=bin/alt-$ALT.mod"
  BIN=bin/vcheck-alt-$ALT
  export VERIF_DIR="${VERIF_OUT:-/tmp/verif-alt-out}"
  mkdir -p "$VERIF_DIR"
  cp known_findings.json "$VERIF_DIR/" 2>/dev/null
fi
if ! go build $MODARGS -o $BIN ./cmd/vcheck 2> bin/build.log; then
  echo "BUILD-ERROR: the checker does not build against the tree under test" >&2
  tail -30 bin/build.log >&2
  exit 2
fi
exec ./$BIN "$ID" --tier "$TIER"
